#!/bin/sh
# Developer tool (not a registered check): statement coverage of the package
# under the quick tier of the given checks (default: all), to find code the
# explorations never reach.  Scratch data under /tmp/cov, removed afterwards
# except the text report printed on stdout.
#   usage: tools/coverage_quick.sh [tier] [ID ...]
set -e
tier=${1:-quick}; [ $# -gt 0 ] && shift
ids="$*"
[ -z "$ids" ] && ids="C01 C02 C03 C04 C05 C06 C07 C08 C09 C10 C11 C12 C13 C14 C15 C16 C17 C18 C19 C20"
REPO=${NGS_REPO:-/repo}
rm -rf /tmp/cov; mkdir -p /tmp/cov
cat > /tmp/cov/.coveragerc <<EOF
[run]
concurrency = multiprocessing
parallel = True
source = $REPO/src/neuroglancer_scripts
data_file = /tmp/cov/.coverage
sigterm = True
EOF
cd /verif
export PYTHONHASHSEED=0 TQDM_DISABLE=1 OMP_NUM_THREADS=1 OPENBLAS_NUM_THREADS=1
export VERIF_EVIDENCE_DIR=/tmp/cov/ev VERIF_REPLAY_DIR=/tmp/cov/ev/replays
for id in $ids; do
    /venv/bin/python -m coverage run --rcfile=/tmp/cov/.coveragerc -m mc $id --tier $tier | tail -1
done
cd /tmp/cov
/venv/bin/python -m coverage combine --rcfile=/tmp/cov/.coveragerc -q
/venv/bin/python -m coverage report --rcfile=/tmp/cov/.coveragerc -m
rm -rf /tmp/cov/ev
