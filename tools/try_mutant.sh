#!/bin/sh
# tools/try_mutant.sh <patch.diff> <tier> <ID>...   apply to /repo, run checks, always revert
patch="$1"; tier="$2"; shift 2
cd /repo || exit 2
if ! git diff --quiet; then echo "/repo is dirty, refusing"; exit 2; fi
git apply "$patch" || { echo "patch does not apply"; exit 2; }
trap 'git -C /repo checkout -- . ' EXIT INT TERM
for id in "$@"; do
  ( cd /verif && ./check "$id" --tier "$tier" 2>&1 | tail -6; ) 
done
