#!/usr/bin/env python3
"""Regenerate the machine-written tables of DESIGN.md (between markers)
from seeded/*/meta.json and known_findings.json."""
import glob
import json
import os
import re

HERE = os.path.dirname(os.path.dirname(os.path.abspath(__file__)))


def detection():
    rows = ["| seeded change | property | source | detected by (tier) | signatures reported |",
            "|---|---|---|---|---|"]
    for d in sorted(glob.glob(os.path.join(HERE, "seeded", "*"))):
        mp = os.path.join(d, "meta.json")
        if not os.path.exists(mp):
            continue
        m = json.load(open(mp))
        ran = m.get("ran", {})
        det = []
        sigs = []
        for p, r in ran.items():
            if r.get("exit") == 1:
                det.append("%s (%s)" % (p, r.get("tier")))
                sigs += [s.split("/", 1)[1] if "/" in s else s for s in r.get("signatures", [])[:3]]
            else:
                det.append("%s: not reported" % p)
        src = "sub-agent" if "sub-agent, given" in m.get("source", "") else "sub-agent (re-created)"
        rows.append("| `%s` | %s | %s | %s | %s |" % (
            os.path.basename(d), m.get("property"), src, "; ".join(det),
            ", ".join("`%s`" % s for s in sigs[:4]) + (" …" if len(sigs) > 4 else "")))
    return "\n".join(rows)


def fixes():
    k = json.load(open(os.path.join(HERE, "known_findings.json")))
    rows = ["| property | commit | what failed on the pinned tree |", "|---|---|---|"]
    for line in k["fixed"]:
        m = re.match(r"fixed: property=(\S+) (\S+) (.*)", line)
        rows.append("| %s | `%s` | %s |" % (m.group(1), m.group(2), m.group(3).replace("|", "\\|")))
    rows.append("")
    rows.append("| known finding (not repaired) | property | signature | witness predicate | why it is not repaired |")
    rows.append("|---|---|---|---|---|")
    for f in k["findings"]:
        rows.append("| `%s` | %s | `%s` | `%s` | %s |" % (
            f["id"], f["property"], f["signature"], json.dumps(f.get("match")),
            f["description"].replace("|", "\\|")))
    return "\n".join(rows)


def main():
    p = os.path.join(HERE, "DESIGN.md")
    s = open(p).read()
    for name, fn in (("detection", detection), ("fixes", fixes)):
        a, b = "<!-- BEGIN:%s -->" % name, "<!-- END:%s -->" % name
        if a in s and b in s:
            s = s[:s.index(a) + len(a)] + "\n" + fn() + "\n" + s[s.index(b):]
    open(p, "w").write(s)


if __name__ == "__main__":
    main()
