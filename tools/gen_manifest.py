#!/usr/bin/env python3
"""Regenerate /verif/MANIFEST.json from mc/registry.py (run after adding a check)."""
import json
import os
import sys

HERE = os.path.dirname(os.path.dirname(os.path.abspath(__file__)))
sys.path.insert(0, HERE)
from mc import registry  # noqa: E402

ids = [json.loads(l)["id"] for l in open(os.path.join(HERE, "properties.jsonl"))]
checks = []
na = []
for pid in ids:
    e = registry.CHECKS.get(pid)
    if e is None or not os.path.exists(os.path.join(HERE, "mc", "props", pid + ".py")):
        na.append({"property_id": pid,
                   "reason": registry.NOT_APPLICABLE.get(
                       pid, "check not built yet in this round (see DESIGN.md section 5 for the plan)")})
        continue
    checks.append({
        "property_id": pid,
        "quick_cmd": "./check %s --tier quick" % pid,
        "thorough_cmd": "./check %s --tier thorough" % pid,
        "evidence_file": "/verif/evidence/%s.json" % pid,
        "replay_cmd_template": "./check %s --replay {path}" % pid,
        "engine": e["engine"],
        "level_claimed": {"category": e["level"], "text": e["text"],
                          "design_ref": "DESIGN.md section 5, " + pid},
        "level_note": e["note"],
        "technique": e["technique"],
    })
m = {
    "version": 1,
    "setup_cmd": "sh -c 'chmod +x /verif/check && /venv/bin/python -c \"import numpy, nibabel, neuroglancer_scripts\"'",
    "hooks": {
        "guard": "NEUROGLANCER_SCRIPTS_VERIF",
        "enable": "no source hooks are used: every seam (file system, HTTP transport, atexit, TMPDIR, numpy.empty) is installed from the harness side; /venv is an editable install of /repo/src so each check process imports the current working tree",
        "baseline_off_cmd": "cd /repo && /venv/bin/python -m pytest -ra -q -p no:cacheprovider --timeout=900 --continue-on-collection-errors",
        "source_commits": [],
        "add_only": True,
    },
    "engines": registry.ENGINES,
    "checks": checks,
    "not_applicable": na,
    "notes": registry.NOTES,
}
with open(os.path.join(HERE, "MANIFEST.json"), "w") as f:
    json.dump(m, f, indent=1)
print("checks:", [c["property_id"] for c in checks])
print("not_applicable:", [c["property_id"] for c in na])
