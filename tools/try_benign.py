#!/usr/bin/env python3
"""tools/try_benign.py <patch.diff> [tier] [ID ...]

Runs the checks against a behaviour-preserving change in a scratch worktree
of /repo HEAD (PYTHONPATH / NGS_REPO overrides; /repo untouched). Any exit
status other than 0 is a false alarm (1) or a fragile harness (2)."""
import os
import re
import subprocess
import sys

patch = os.path.abspath(sys.argv[1])
tier = sys.argv[2] if len(sys.argv) > 2 else "quick"
ids = sys.argv[3:] or ["C%02d" % i for i in range(1, 21)]
WT = "/tmp/benign_wt_%d" % os.getpid()
EV = "/tmp/benign_ev_%d" % os.getpid()


def sh(cmd, **kw):
    return subprocess.run(cmd, shell=True, capture_output=True, text=True, **kw)


r = sh("git -C /repo worktree add -q --detach %s HEAD" % WT)
assert r.returncode == 0, r.stderr
bad = 0
try:
    r = sh("git apply %s" % patch, cwd=WT)
    if r.returncode != 0:
        print("PATCH DOES NOT APPLY:", r.stderr.strip()[:300])
        sys.exit(3)
    r = sh("/venv/bin/python -m pytest -q -p no:cacheprovider --timeout=900 2>&1 | tail -1",
           cwd=WT, env=dict(os.environ, PYTHONPATH=WT + "/src"))
    print("suite:", r.stdout.strip())
    env = dict(os.environ, PYTHONPATH=WT + "/src", NGS_REPO=WT,
               VERIF_EVIDENCE_DIR=EV, VERIF_REPLAY_DIR=EV + "/replays")
    for p in ids:
        r = sh("./check %s --tier %s" % (p, tier), cwd="/verif", env=env)
        out = r.stdout + r.stderr
        if r.returncode != 0:
            bad += 1
            print("ALARM %s exit=%d" % (p, r.returncode))
            for l in out.splitlines():
                if re.match(r"VIOLATION|HARNESS|NONDET|RuntimeError|\w+Error", l):
                    print("   ", l[:300])
            rp = re.findall(r"replay=(\S+)", out)
            for f in rp[:3]:
                try:
                    import json
                    j = json.load(open(f))
                    print("    case:", json.dumps(j["case"])[:400])
                    print("    exp:", str(j["expected"])[:200], "| obs:", str(j["observed"])[:300])
                except Exception:
                    pass
        else:
            print("ok   ", p)
        sys.stdout.flush()
finally:
    sh("git -C /repo worktree remove --force %s" % WT)
    sh("rm -rf %s" % EV)
print("ALARMS:", bad)
sys.exit(1 if bad else 0)
