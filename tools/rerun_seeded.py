#!/usr/bin/env python3
"""Re-run the checks against every seeded change in a scratch worktree of
/repo HEAD (outside /repo and /verif; PYTHONPATH + NGS_REPO point the checks
at it) and refresh seeded/<name>/meta.json["ran"].  Developer tool: the
official confirmation of a seed is tools/keep_mutant.py (git -C /repo apply).

usage: tools/rerun_seeded.py [tier] [name-prefix ...]"""
import glob
import json
import os
import re
import subprocess
import sys

tier = sys.argv[1] if len(sys.argv) > 1 else "quick"
prefixes = sys.argv[2:]
WT = "/tmp/seedrun_wt"
EV = "/tmp/seedrun_ev"


def sh(cmd, **kw):
    return subprocess.run(cmd, shell=True, capture_output=True, text=True, **kw)


sh("git -C /repo worktree remove --force %s" % WT)
r = sh("git -C /repo worktree add -q --detach %s HEAD" % WT)
assert r.returncode == 0, r.stderr
env = dict(os.environ, PYTHONPATH=WT + "/src", NGS_REPO=WT,
           VERIF_EVIDENCE_DIR=EV, VERIF_REPLAY_DIR=EV + "/replays")
try:
    for d in sorted(glob.glob("/verif/seeded/*")):
        name = os.path.basename(d)
        if prefixes and not any(name.startswith(p) for p in prefixes):
            continue
        meta = json.load(open(d + "/meta.json"))
        props = list(meta.get("ran", {}).keys()) or [meta["property"]]
        if meta["property"] not in props:
            props.insert(0, meta["property"])
        sh("git checkout -q -- . && git clean -fdq", cwd=WT)
        r = sh("git apply %s/patch.diff" % d, cwd=WT)
        if r.returncode != 0:
            print(name, "PATCH DOES NOT APPLY ON HEAD:", r.stderr.strip()[:200])
            meta["applies_on_head"] = False
            json.dump(meta, open(d + "/meta.json", "w"), indent=1)
            continue
        meta["applies_on_head"] = True
        ran = {}
        for p in props:
            r = sh("./check %s --tier %s" % (p, tier), cwd="/verif", env=env)
            out = r.stdout + r.stderr
            sigs = re.findall(r"VIOLATION property=\S+ replay=\S+ signature=(\S+)", out)
            ran[p] = {"tier": tier, "exit": r.returncode, "signatures": sigs,
                      "summary": [l for l in out.splitlines() if l.startswith(p + " tier=")]}
        meta["ran"] = ran
        meta["detected"] = any(v["exit"] == 1 for v in ran.values())
        meta["head_when_run"] = sh("git -C /repo rev-parse --short HEAD").stdout.strip()
        json.dump(meta, open(d + "/meta.json", "w"), indent=1)
        print(name, "DETECTED" if meta["detected"] else "MISSED",
              {p: v["exit"] for p, v in ran.items()})
        sys.stdout.flush()
finally:
    sh("git -C /repo worktree remove --force %s" % WT)
    sh("rm -rf %s" % EV)
