#!/usr/bin/env python3
"""tools/keep_mutant.py <mutant_dir> <seed_name> <property> [tier]

Confirms a sub-agent's seeded change in a scratch worktree of /repo HEAD
(outside /repo and /verif): demo passes clean, patch applies, baseline suite
outcome unchanged (340 passed, same failures), demo fails with the patch.
Then runs ./check <property> against it in /repo (apply, run, revert) and
stores everything under /verif/seeded/<seed_name>/.
"""
import json
import os
import re
import shutil
import subprocess
import sys

src, name, prop = sys.argv[1:4]
tier = sys.argv[4] if len(sys.argv) > 4 else "quick"
extra_props = sys.argv[5:]  # further properties to run too
WT = "/tmp/confirm_%s" % name
PY = "/venv/bin/python"


def sh(cmd, cwd=None, env=None, timeout=1800):
    e = dict(os.environ)
    e.update(env or {})
    p = subprocess.run(cmd, shell=True, cwd=cwd, env=e, capture_output=True,
                       text=True, timeout=timeout)
    return p.returncode, (p.stdout + p.stderr)


def suite(wt):
    rc, out = sh("%s -m pytest -q -p no:cacheprovider --timeout=900 2>&1 | grep -E '^FAILED | passed'" % PY,
                 cwd=wt, env={"PYTHONPATH": wt + "/src"})
    m = re.search(r"(\d+) failed, (\d+) passed", out)
    failed = sorted(re.findall(r"FAILED (\S+)", out))
    return (int(m.group(2)), int(m.group(1))) if m else None, failed


meta = {"seed": name, "property": prop, "source": "independent sub-agent, given only the property text"}
sh("git -C /repo worktree remove --force %s" % WT)
rc, out = sh("git -C /repo worktree add -q --detach %s HEAD" % WT)
assert rc == 0, out
try:
    env = {"PYTHONPATH": WT + "/src"}
    rc0, out0 = sh("%s %s/demo.py" % (PY, src), cwd=WT, env=env)
    base, base_failed = suite(WT)
    rc, out = sh("git apply %s/patch.diff" % src, cwd=WT)
    assert rc == 0, "patch does not apply: " + out
    mut, mut_failed = suite(WT)
    rc1, out1 = sh("%s %s/demo.py" % (PY, src), cwd=WT, env=env)
    meta["confirmed"] = {
        "demo_clean": {"exit": rc0, "tail": out0[-300:]},
        "demo_with_patch": {"exit": rc1, "tail": out1[-600:]},
        "suite_clean": base, "suite_with_patch": mut,
        "same_failures": base_failed == mut_failed,
    }
    ok = (rc0 == 0 and rc1 != 0 and base == mut and base_failed == mut_failed)
    meta["confirmed"]["ok"] = ok
finally:
    sh("git -C /repo worktree remove --force %s" % WT)
print(json.dumps(meta["confirmed"], indent=1))
if not ok:
    print("NOT CONFIRMED - not kept")
    sys.exit(1)

# run my checks against it
rc, out = sh("git -C /repo diff --quiet")
assert rc == 0, "/repo dirty"
det = {}
try:
    rc, out = sh("git -C /repo apply %s/patch.diff" % src)
    assert rc == 0, out
    for p in [prop] + extra_props:
        rc, out = sh("./check %s --tier %s" % (p, tier), cwd="/verif")
        sigs = re.findall(r"VIOLATION property=\S+ replay=\S+ signature=(\S+)", out)
        det[p] = {"tier": tier, "exit": rc, "signatures": sigs,
                  "summary": [l for l in out.splitlines() if l.startswith(p + " tier=")]}
finally:
    sh("git -C /repo checkout -- .")
meta["ran"] = det
meta["detected"] = any(v["exit"] == 1 for v in det.values())
dst = "/verif/seeded/" + name
os.makedirs(dst, exist_ok=True)
for f in ("patch.diff", "demo.py", "notes.md"):
    if os.path.exists(os.path.join(src, f)):
        shutil.copy(os.path.join(src, f), dst)
notes = open(os.path.join(src, "notes.md")).read() if os.path.exists(os.path.join(src, "notes.md")) else ""
meta["needs_to_manifest"] = "see notes.md"
json.dump(meta, open(os.path.join(dst, "meta.json"), "w"), indent=1)
print(json.dumps(det, indent=1))
print("DETECTED" if meta["detected"] else "MISSED")
