import sys

from mc.runner import main

sys.exit(main())
