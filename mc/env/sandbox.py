"""Per-case scratch directories, in-process CLI driver, atexit capture.

Harness-side seams only (no source hooks):
 * atexit.register is patched so that callbacks bound to a
   ShardedFileAccessor are captured and run where process exit would run
   them (capturing everything would also grab weakref.finalize's hook and
   delete live TemporaryDirectory dirs - seen in a probe).
 * TMPDIR points into the worker's scratch root (the library leaks one temp
   directory per MiniShard with the "on disk" strategy).
"""
import atexit
import contextlib
import importlib
import io
import itertools
import os
import shutil
import sys

from mc import runner

_counter = itertools.count()
_real_register = atexit.register
_captured = []
_installed = False


def fresh_dir(tag="d"):
    root = runner.scratch_root() or os.environ.get("TMPDIR", "/dev/shm")
    d = os.path.join(root, "%s%d" % (tag, next(_counter)))
    if os.path.exists(d):
        shutil.rmtree(d)
    os.makedirs(d)
    return d


def rm(d):
    shutil.rmtree(d, ignore_errors=True)


def _register(func, *a, **k):
    owner = getattr(func, "__self__", None)
    if owner is not None and type(owner).__name__ == "ShardedFileAccessor":
        _captured.append((func, a, k))
        return func
    return _real_register(func, *a, **k)


def install_atexit_capture():
    global _installed
    if not _installed:
        atexit.register = _register
        _installed = True


def run_captured_exit_handlers():
    """Run (LIFO, like the interpreter) and forget captured handlers.
    Returns the list of exceptions raised by handlers."""
    errs = []
    while _captured:
        func, a, k = _captured.pop()
        try:
            func(*a, **k)
        except BaseException as exc:   # the interpreter would print and go on
            errs.append(exc)
    return errs


def drop_captured_exit_handlers():
    del _captured[:]


class CliResult:
    def __init__(self, status, out, err, exc, exit_errors):
        self.status, self.out, self.err = status, out, err
        self.exc, self.exit_errors = exc, exit_errors

    @property
    def ok(self):
        return self.status == 0 and self.exc is None and not self.exit_errors

    def brief(self):
        if self.exc is not None:
            return "exception %s: %s" % (type(self.exc).__name__,
                                         str(self.exc)[:200])
        if self.exit_errors:
            return "exit-handler %s: %s" % (
                type(self.exit_errors[0]).__name__,
                str(self.exit_errors[0])[:200])
        return "status %r" % (self.status,)


def run_cli(script, args, flush_exit=True):
    """Run neuroglancer_scripts.scripts.<script>.main([prog]+args) in-process
    the way the console script would: return value or SystemExit code is the
    exit status, an uncaught exception is status 1 (+ .exc), then the exit
    handlers of sharded accessors run."""
    install_atexit_capture()
    mod = importlib.import_module("neuroglancer_scripts.scripts." + script)
    out, err = io.StringIO(), io.StringIO()
    status, exc = None, None
    with contextlib.redirect_stdout(out), contextlib.redirect_stderr(err):
        try:
            status = mod.main([script] + [str(a) for a in args])
        except SystemExit as e:
            status = e.code if isinstance(e.code, int) else (
                0 if e.code is None else 1)
        except Exception as e:          # noqa: would be a traceback + exit 1
            status, exc = 1, e
        exit_errors = run_captured_exit_handlers() if flush_exit else []
    if status is None:
        status = 0
    return CliResult(status, out.getvalue(), err.getvalue(), exc,
                     exit_errors)


@contextlib.contextmanager
def quiet():
    out, err = io.StringIO(), io.StringIO()
    with contextlib.redirect_stdout(out), contextlib.redirect_stderr(err):
        yield out
