"""System-call level file-system seam (harness side, no source hooks).

builtins.open / io.open are replaced by _pyio.open (CPython's pure-Python
reference implementation of open(), same buffering contract) and the os.*
functions it and pathlib / gzip / os.makedirs use are wrapped. Every call
whose path or file descriptor lies under the watched root is a *point*;
user-space buffering stays real (BufferedWriter, GzipFile), so a deviation
at a write() point loses exactly what an interrupted process would lose.

Deviations at a point:
  ("errno", E)       raise OSError(E) instead of performing the call
  ("short", n)       os.write performs a short write of n bytes; the
                     retry that BufferedWriter issues fails with ENOSPC
  ("kill-before",)   the process dies before the call: raise Killed (a
                     BaseException) and go *dead*
  ("kill-after",)    perform the call, then die
In dead mode every later mutating call is silently dropped and every read
fails, so close()/flush() running during unwinding cannot reach the disk -
SIGKILL at that system-call boundary, including loss of unflushed buffers.
"""
import _pyio
import builtins
import errno
import io
import os

MUTATING = {"open-w", "write", "mkdir", "unlink", "rename", "replace",
            "ftruncate", "rmdir"}


class Killed(BaseException):
    pass


class IOSim:
    def __init__(self, root, extra_root=None):
        self.root = os.path.realpath(root)
        # a second watched directory (the temp buffers of the sharded
        # writer's "on disk" strategy); its paths are reported as "TMP/..."
        self.extra_root = os.path.realpath(extra_root) if extra_root \
            else None
        self.points = []          # (name, relpath)
        self.deviations = {}      # index -> deviation tuple
        self.dead = False
        self.fds = {}             # fd -> (relpath, writable)
        self.pending_enospc = set()   # fds whose next write fails
        self.opened_for_write = []    # relpaths successfully opened "w"
        self.applied = []
        self._saved = {}

    # ---- helpers --------------------------------------------------------
    def _rel(self, path):
        try:
            p = os.fspath(path)
        except TypeError:
            return None
        if isinstance(p, bytes):
            p = p.decode("utf-8", "surrogateescape")
        if not os.path.isabs(p):
            p = os.path.join(os.getcwd(), p)
        p = os.path.normpath(p)
        if p == self.root or p.startswith(self.root + os.sep):
            return os.path.relpath(p, self.root)
        if self.extra_root and p.startswith(self.extra_root + os.sep):
            # temp names are random (mkdtemp / uuid4): keep the shape only
            rel = os.path.relpath(p, self.extra_root).split(os.sep)
            return "TMP/" + "/".join(
                c if c == "sharded_ondisk_bytearray" else "*" for c in rel)
        return None

    def _point(self, name, rel, mutating, perform, short_ok=False,
               nbytes=None):
        """common deviation logic. perform() does the real call."""
        if self.dead:
            if mutating:
                return nbytes if name == "write" else None
            raise Killed()
        idx = len(self.points)
        self.points.append((name, rel))
        dev = self.deviations.get(idx)
        if dev is None:
            return perform()
        self.applied.append((idx, dev))
        kind = dev[0]
        if kind == "errno":
            raise OSError(dev[1], os.strerror(dev[1]), rel)
        if kind == "kill-before":
            self.dead = True
            raise Killed()
        if kind == "kill-after":
            res = perform()
            self.dead = True
            raise Killed()
        if kind == "short" and name == "write":
            return perform(short=dev[1])
        return perform()

    # ---- wrapped calls --------------------------------------------------
    def install(self):
        s = self._saved
        for n in ("open", "read", "write", "close", "lseek", "fstat", "stat",
                  "lstat", "mkdir", "unlink", "rename", "replace",
                  "ftruncate", "rmdir", "scandir", "listdir"):
            s[n] = getattr(os, n)
        s["builtins.open"] = builtins.open
        s["io.open"] = io.open
        sim = self

        def w_open(path, flags, mode=0o777, *, dir_fd=None):
            rel = sim._rel(path) if dir_fd is None else None
            if rel is None:
                return s["open"](path, flags, mode, dir_fd=dir_fd)
            writable = bool(flags & (os.O_WRONLY | os.O_RDWR))

            def perform():
                fd = s["open"](path, flags, mode)
                sim.fds[fd] = (rel, writable)
                if writable:
                    sim.opened_for_write.append(rel)
                return fd
            if sim.dead and writable:
                # a dropped open must still hand out something closeable
                fd = s["open"](os.devnull, os.O_WRONLY)
                sim.fds[fd] = (rel, True)
                return fd
            return sim._point("open-w" if writable else "open-r", rel,
                              writable, perform)

        def w_read(fd, n):
            if fd not in sim.fds:
                return s["read"](fd, n)
            return sim._point("read", sim.fds[fd][0], False,
                              lambda: s["read"](fd, n))

        def w_write(fd, data):
            if fd not in sim.fds:
                return s["write"](fd, data)
            rel = sim.fds[fd][0]
            if fd in sim.pending_enospc and not sim.dead:
                sim.pending_enospc.discard(fd)
                idx = len(sim.points)
                sim.points.append(("write-retry", rel))
                raise OSError(errno.ENOSPC, os.strerror(errno.ENOSPC), rel)

            def perform(short=None):
                if short is None:
                    return s["write"](fd, data)
                n = max(0, min(short, len(data) - 1))
                sim.pending_enospc.add(fd)
                if n == 0:
                    raise OSError(errno.ENOSPC, os.strerror(errno.ENOSPC),
                                  rel)
                return s["write"](fd, bytes(data[:n]))
            return sim._point("write", rel, True, perform,
                              nbytes=len(data))

        def w_close(fd):
            if fd in sim.fds:
                rel, writable = sim.fds.pop(fd)
                sim.pending_enospc.discard(fd)
            return s["close"](fd)

        def w_lseek(fd, pos, how):
            if fd not in sim.fds:
                return s["lseek"](fd, pos, how)
            if sim.dead:
                return 0
            return s["lseek"](fd, pos, how)

        def w_fstat(fd):
            return s["fstat"](fd)

        def w_stat(path, *a, **k):
            rel = sim._rel(path) if not isinstance(path, int) else None
            if rel is None or k.get("dir_fd") is not None:
                return s["stat"](path, *a, **k)
            return sim._point("stat", rel, False,
                              lambda: s["stat"](path, *a, **k))

        def w_lstat(path, *a, **k):
            rel = sim._rel(path)
            if rel is None or k.get("dir_fd") is not None:
                return s["lstat"](path, *a, **k)
            return sim._point("stat", rel, False,
                              lambda: s["lstat"](path, *a, **k))

        def w_mkdir(path, mode=0o777, *, dir_fd=None):
            rel = sim._rel(path) if dir_fd is None else None
            if rel is None:
                return s["mkdir"](path, mode, dir_fd=dir_fd)
            return sim._point("mkdir", rel, True,
                              lambda: s["mkdir"](path, mode))

        def w_unlink(path, *, dir_fd=None):
            rel = sim._rel(path) if dir_fd is None else None
            if rel is None:
                return s["unlink"](path, dir_fd=dir_fd)
            return sim._point("unlink", rel, True,
                              lambda: s["unlink"](path))

        def w_ftruncate(fd, n):
            if fd not in sim.fds:
                return s["ftruncate"](fd, n)
            return sim._point("ftruncate", sim.fds[fd][0], True,
                              lambda: s["ftruncate"](fd, n))

        def w_rename(a, b, **k):
            rel = sim._rel(b) or sim._rel(a)
            if rel is None:
                return s["rename"](a, b, **k)
            return sim._point("rename", rel, True,
                              lambda: s["rename"](a, b, **k))

        def w_replace(a, b, **k):
            rel = sim._rel(b) or sim._rel(a)
            if rel is None:
                return s["replace"](a, b, **k)
            return sim._point("replace", rel, True,
                              lambda: s["replace"](a, b, **k))

        os.open, os.read, os.write, os.close = w_open, w_read, w_write, \
            w_close
        os.lseek, os.fstat, os.stat, os.lstat = w_lseek, w_fstat, w_stat, \
            w_lstat
        os.mkdir, os.unlink, os.ftruncate = w_mkdir, w_unlink, w_ftruncate
        os.rename, os.replace = w_rename, w_replace
        builtins.open = _pyio.open
        io.open = _pyio.open
        return self

    def uninstall(self):
        s = self._saved
        for n in ("open", "read", "write", "close", "lseek", "fstat", "stat",
                  "lstat", "mkdir", "unlink", "rename", "replace",
                  "ftruncate", "rmdir", "scandir", "listdir"):
            setattr(os, n, s[n])
        builtins.open = s["builtins.open"]
        io.open = s["io.open"]
        for fd in list(self.fds):
            try:
                s["close"](fd)
            except OSError:
                pass
        self.fds.clear()

    def __enter__(self):
        return self.install()

    def __exit__(self, *a):
        self.uninstall()
        return False


def menu_for(point):
    """alternative answers for one recorded point"""
    name = point[0]
    E = errno
    if name in ("stat", "open-r"):
        return [("errno", E.EIO), ("errno", E.EACCES), ("errno", E.ENOENT)]
    if name == "read":
        return [("errno", E.EIO)]     # read(2) cannot fail with ENOENT
    if name == "write":
        return [("errno", E.ENOSPC), ("errno", E.EIO), ("short", 1),
                ("short", 10 ** 9), ("kill-before",), ("kill-after",)]
    if name in ("open-w", "mkdir", "unlink", "ftruncate", "rename",
                "replace"):
        return [("errno", E.ENOSPC), ("errno", E.EACCES), ("errno", E.EIO),
                ("errno", E.EROFS), ("kill-before",), ("kill-after",)]
    return []
