"""In-process HTTP transport for `requests` (harness-side seam, no sockets).

A requests.adapters.HTTPAdapter subclass (only `send` overridden) is mounted
on every new requests.Session for http:// and https://. It serves a directory
as static files the way docs/serving-data.rst prescribes:

  * flat chunk names; a name of the form key/x-X_y-Y_z-Z that does not exist
    is looked up at key/x-X/y-Y/z-Z (the documented rewrite rule);
  * `gzip_static always`: if F.gz exists it is sent with
    `Content-Encoding: gzip`, else F is sent as is;
  * no Content-Encoding and `Range` support (206 + Content-Range) for plain
    files, which is what sharded data needs; HEAD = headers only.

Responses are real urllib3.HTTPResponse objects passed through
HTTPAdapter.build_response, so requests' own content decoding, length
enforcement, status handling and raise_for_status run unmodified. Every
request is logged as a *point*; a deviation replaces the answer at one point.
"""
import io
import os
import re

import requests
import requests.adapters
import urllib3

_FLAT = re.compile(r"^(.*)/([0-9]+-[0-9]+)_([0-9]+-[0-9]+)_([0-9]+-[0-9]+)$")

ANSWERS = ["404", "403", "500", "503", "ignore-range", "short-declared",
           "short-truthful", "long-truthful", "empty-declared",
           "connection-error", "timeout", "broken-mid-body"]


class _BrokenBody(io.RawIOBase):
    """delivers `data` and then fails like a dropped connection"""

    def __init__(self, data):
        self.data = io.BytesIO(data)
        self.done = False

    def readable(self):
        return True

    def read(self, n=-1):
        chunk = self.data.read(n)
        if chunk:
            return chunk
        raise urllib3.exceptions.ProtocolError(
            "Connection broken: IncompleteRead")

    def readinto(self, b):
        chunk = self.read(len(b))
        b[:len(chunk)] = chunk
        return len(chunk)


class Server:
    def __init__(self, root, host="sim"):
        self.root = root
        self.host = host
        self.log = []            # points: (method, path, range header)
        self.deviations = {}     # point index -> answer name
        self.applied = []
        # an answer name ending in "*" is persistent: it is also given to
        # every later request for the same path (until `sticky` is cleared)
        self.sticky = {}

    # ---- static file resolution ------------------------------------------
    def resolve(self, path):
        """-> (file path, content-encoding or None) or None"""
        rel = path.lstrip("/")
        cands = [rel]
        m = _FLAT.match(rel)
        if m:
            cands.append("%s/%s/%s/%s" % m.groups())
        if rel.endswith(":0"):
            cands += [rel[:-2] + ".json", rel[:-2]]
        for c in cands:
            p = os.path.normpath(os.path.join(self.root, c))
            if not p.startswith(os.path.normpath(self.root)):
                continue
            if os.path.isfile(p + ".gz"):
                return p + ".gz", "gzip"
            if os.path.isfile(p):
                return p, None
        return None

    def handle(self, method, path, headers):
        idx = len(self.log)
        rng = headers.get("Range")
        self.log.append((method, path, rng))
        dev = self.deviations.get(idx)
        if dev is not None and dev.endswith("*"):
            dev = dev[:-1]
            self.sticky[path] = dev
        if dev is None:
            dev = self.sticky.get(path)
        if dev is not None:
            self.applied.append((idx, dev))
        if dev == "connection-error":
            raise requests.exceptions.ConnectionError("sim: connection reset")
        if dev == "timeout":
            raise requests.exceptions.ReadTimeout("sim: read timed out")
        if dev is not None and dev.isdigit():
            # error pages have a body, like real servers' ones
            page = b"<html>error %s</html>" % dev.encode()
            return int(dev), {"Content-Length": str(len(page)),
                              "Content-Type": "text/html"}, \
                (b"" if method == "HEAD" else page), None
        res = self.resolve(path)
        if res is None:
            return 404, {"Content-Length": "0"}, b"", None
        fpath, enc = res
        with open(fpath, "rb") as f:
            data = f.read()
        hdrs = {"Content-Type": "application/octet-stream"}
        status = 200
        body = data
        if enc:
            hdrs["Content-Encoding"] = enc
        elif rng and dev != "ignore-range":
            m = re.match(r"bytes=(\d+)-(\d*)$", rng)
            if m:
                a = int(m.group(1))
                b = int(m.group(2)) if m.group(2) else len(data) - 1
                if a >= len(data):
                    return 416, {"Content-Range": "bytes */%d" % len(data),
                                 "Content-Length": "0"}, b"", None
                b = min(b, len(data) - 1)
                body = data[a:b + 1]
                status = 206
                hdrs["Content-Range"] = "bytes %d-%d/%d" % (a, b, len(data))
        declared = len(body)
        broken = None
        if dev == "short-declared":
            body = body[:-1] if body else body       # length says more
        elif dev == "short-truthful":
            body = body[:-1] if body else body
            declared = len(body)
        elif dev == "long-truthful":
            body = body + b"\0"
            declared = len(body)
        elif dev == "empty-declared":
            body = b""
        elif dev == "broken-mid-body":
            broken = body[:len(body) // 2]
        hdrs["Content-Length"] = str(declared)
        if method == "HEAD":
            return status, hdrs, b"", None
        return status, hdrs, body, broken


class SimAdapter(requests.adapters.HTTPAdapter):
    server = None

    def send(self, request, stream=False, timeout=None, verify=True,
             cert=None, proxies=None):
        srv = SimAdapter.server
        if srv is None:
            raise requests.exceptions.ConnectionError("sim: no server")
        from urllib.parse import unquote, urlsplit
        parts = urlsplit(request.url)
        status, hdrs, body, broken = srv.handle(
            request.method, unquote(parts.path), dict(request.headers))
        fp = _BrokenBody(broken) if broken is not None else io.BytesIO(body)
        raw = urllib3.HTTPResponse(
            body=fp, headers=hdrs, status=status, preload_content=False,
            decode_content=False, enforce_content_length=True,
            request_method=request.method, reason="SIM")
        return self.build_response(request, raw)


_installed = False
_orig_init = requests.Session.__init__


def install():
    global _installed
    if _installed:
        return

    def init(self, *a, **k):
        _orig_init(self, *a, **k)
        ad = SimAdapter()
        self.mount("http://", ad)
        self.mount("https://", ad)
    requests.Session.__init__ = init
    _installed = True


def serve(root):
    install()
    SimAdapter.server = Server(root)
    return SimAdapter.server


# ---------------------------------------------------------------------------
# The same server behind a real loopback socket (conformance of the seam:
# the unmodified `requests`/urllib3 stack talks to it through the kernel).
import http.server  # noqa: E402
import threading  # noqa: E402


class _Handler(http.server.BaseHTTPRequestHandler):
    protocol_version = "HTTP/1.0"       # one request per connection
    sim = None

    def log_message(self, *a):
        pass

    def _serve(self, method):
        from urllib.parse import unquote, urlsplit
        path = unquote(urlsplit(self.path).path)
        try:
            status, hdrs, body, broken = self.sim.handle(
                method, path, dict(self.headers))
        except (requests.exceptions.ConnectionError,
                requests.exceptions.ReadTimeout):
            # drop the connection without any reply
            self.close_connection = True
            try:
                self.connection.shutdown(2)
            except OSError:
                pass
            return
        self.send_response(status)
        for k, v in hdrs.items():
            self.send_header(k, v)
        self.end_headers()
        if method != "HEAD":
            self.wfile.write(broken if broken is not None else body)
        self.wfile.flush()

    def do_GET(self):
        self._serve("GET")

    def do_HEAD(self):
        self._serve("HEAD")


class SocketServer:
    """serves a Server object on 127.0.0.1:<ephemeral port>"""

    def __init__(self, sim):
        handler = type("H", (_Handler,), {"sim": sim})
        self.httpd = http.server.ThreadingHTTPServer(("127.0.0.1", 0),
                                                     handler)
        self.port = self.httpd.server_address[1]
        self.thread = threading.Thread(target=self.httpd.serve_forever,
                                       kwargs={"poll_interval": 0.01},
                                       daemon=True)
        self.thread.start()

    def stop(self):
        self.httpd.shutdown()
        self.httpd.server_close()
        self.thread.join(5)


def uninstall():
    """restore the stock transport (sockets)"""
    global _installed
    requests.Session.__init__ = _orig_init
    _installed = False
