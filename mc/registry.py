"""Table the MANIFEST is generated from (tools/gen_manifest.py)."""

NOTES = ("All checks are bounded exhaustive explorations of the real code "
         "(model checking in the sense of the brief): finite declared spaces "
         "enumerated completely, explicit-state BFS over the real transition "
         "functions, deviation-bounded fault/crash enumeration. No sampling, "
         "no solver. Genuine defects found are fixed in /repo ('fix:' "
         "commits) or listed in known_findings.json.")

ENGINES = [
    {"name": "E-INPUT", "path": "mc/runner.py",
     "serves_properties": ["C01", "C02", "C06", "C07", "C08", "C09", "C10",
                           "C11", "C13", "C15", "C16", "C17", "C20"],
     "kind_free_text": "bounded-exhaustive product enumerator over declared "
                       "finite input/configuration spaces, simplest first, "
                       "16 worker processes, independent reference oracles"},
    {"name": "E-STATE", "path": "mc/sharded_explore.py",
     "serves_properties": ["C03", "C04", "C05", "C12", "C19"],
     "kind_free_text": "explicit-state breadth-first search whose transition "
                       "relation is the real implementation; full-state "
                       "hashing, reference-model agreement in every state "
                       "(sharded writer: mc/sharded_explore.py; file "
                       "storage, dataset I/O and CLI sequences: the bfs / "
                       "explore functions of mc/props/C12, C03, C19)"},
    {"name": "E-DEV", "path": "mc/env/iosim.py",
     "serves_properties": ["C14", "C18"],
     "kind_free_text": "deviation-bounded explorer: every I/O point x every "
                       "alternative environment answer (errno, short write, "
                       "kill, HTTP reply), bound 1 then 2 (file-system seam "
                       "mc/env/iosim.py + mc/props/C18; HTTP seam "
                       "mc/env/httpsim.py + mc/props/C14; strace / socket / "
                       "subprocess conformance replays bind the seams to "
                       "the real environment)"},
]

NOT_APPLICABLE = {}

CHECKS = {
    "C09": {
        "engine": "E-INPUT", "level": "exploration",
        "technique": "bounded exhaustive enumeration (all grids <= N^3 with "
                     "all positions; boundary lattices) vs Python-int "
                     "reference",
        "text": "Every grid up to 8^3 (quick) / 12^3 (thorough) chunks with "
                "every position in three size/chunk spellings, a large-grid "
                "boundary lattice up to 2^21+1 chunks per axis, rejection "
                "probes around every grid and an identifier x bit-triple "
                "routing lattice (bit sums 0..70) are compared with a "
                "Python-integer reference of the specification: identifier, "
                "injectivity, < 2^bits, shard, minishard, file name. "
                "Exhaustive over the declared space; structural bugs (bit "
                "order, skipped axis, mask width) show on small grids.",
        "note": "Trusts the restatement of the Neuroglancer spec in DESIGN.md "
                "App. A.1/A.3; grids beyond the lattice are not covered.",
    },
    "C20": {
        "engine": "E-INPUT", "level": "exploration",
        "technique": "bounded exhaustive enumeration (every integer to 2^22 "
                     "/ 2^26 + boundary windows to 2^70; dataset product) "
                     "with exact integer parse-back oracle",
        "text": "readable_count is evaluated on every integer below 2^22 "
                "(quick) / 2^26 (thorough) and on windows around every "
                "power-of-1024 boundary up to 2^70; each result is parsed "
                "back with integer arithmetic (within half a unit of the "
                "last digit, >= 2 significant digits, <= 6 characters up to "
                "2^60). scale-stats is compared with the chunk files / "
                "shard-index entries and decoded byte sizes of datasets "
                "produced by the real command sequence over a product of "
                "sizes x types x channels x chunk targets x storage options."
                " The dataset directory carries different names (also ones ending in characters of '/info', a trailing slash)."
                " Chunk counts are compared before anything is decoded; a scale without any shard file after commands that exited 0 counts as 0 chunks written.",
        "note": "Counts are integers; the dataset product is small volumes "
                "(<= 33 voxels per axis); chunk files are recognised by the "
                "documented names only.",
    },
    "C11": {
        "engine": "E-INPUT", "level": "exploration",
        "technique": "bounded exhaustive enumeration of dtype pairs x modes "
                     "x layouts x decision-point value alphabet vs exact "
                     "rational reference",
        "text": "All 10x5 (input, output) type pairs, both buffer-reuse "
                "modes and six memory layouts (C, Fortran, strided view, "
                "read-only, reversed, empty) are run on an alphabet built "
                "around every decision point (type limits +-1/+-0.5, ties, "
                "2^24, 2^53, 2^63, 2^64, float32 max and beyond, lattice "
                "neighbours), every value alone and all together, and "
                "compared element by element with the nearest-even "
                "saturating reference computed in Fractions; input bytes "
                "(and the base of strided views) are compared before/after.",
        "note": "Finite values only; the alphabet is a lattice around the "
                "code's decision points, not all floats.",
    },
    "C07": {
        "engine": "E-INPUT", "level": "exploration",
        "technique": "bounded exhaustive enumeration of ALL small arrays "
                     "over type-limit alphabets x factor triples x outside "
                     "values vs exact-rational block statistics",
        "text": "Every array over a per-type limit alphabet {1, max, max-1, "
                "0} (float32: dyadic and 2^100-scale alphabets) for every "
                "shape in {1,2,3}^3 up to 6 (quick) / 8 (thorough) voxels, "
                "as 1- and 2-channel chunks, is downscaled with every factor "
                "triple each method supports ({1,2}^3 average, {1,2,3}^3 "
                "majority/stride) and every outside-value setting, and "
                "compared voxel by voxel with the exact mean rounded "
                "half-to-even (edge / constant completion), the majority "
                "label (smallest on ties) or the first voxel; shape, dtype, "
                "min/max containment, input immutability and "
                "NotImplementedError for unsupported factors are checked."
                " Float32 volumes holding infinities of one sign (5 shapes x 6 factor triples x every position) must average to that infinity.",
        "note": "Small-scope: blocks of at most 8 voxels per axis pair; "
                "float32 alphabets keep partial sums exact in float64. "
                "uint64 averaging above 2^53 is a recorded known finding.",
    },
    "C05": {
        "engine": "E-STATE", "level": "model_checking",
        "technique": "explicit-state BFS over the real sharded writer "
                     "(all store orders of all subsets, full-state hashing), "
                     "close/reopen/fetch oracle in every state",
        "text": "For every configuration (grids up to 6 chunks quick / 9 "
                "thorough incl. non-power-of-two and ragged grids x 32 bit "
                "triples x 4 index/data encoding pairs) the real "
                "ShardedFileAccessor is explored breadth-first: transition = "
                "store one not-yet-stored chunk, state = stored subset + "
                "hash of every MiniShard field, so all n! orders of all 2^n "
                "subsets are covered exactly. In every state a deep copy is "
                "closed, reopened by a fresh accessor and every grid chunk "
                "fetched (stored = exact bytes, unstored = error or empty); "
                "shard files must be byte-identical per subset across "
                "orders and across the in-memory and on-disk buffering "
                "strategies (on-disk replayed per subset, ascending and "
                "descending, all permutations for <= 4 chunks)."
                " A huge-grid family stores and fetches chunks whose identifiers exceed 2^32 and 2^53 (9 grids of 2^33..2^63 chunks x 7 store orders x both strategies, absent probes interleaved).",
        "note": "One write session per scale, each chunk stored once; "
                "minishards of at most 9 chunks; no separate model - the "
                "transition relation is the implementation.",
    },
    "C04": {
        "engine": "E-STATE", "level": "model_checking",
        "technique": "explicit-state BFS over the real sharded writer; "
                     "every closed state parsed by a specification-only "
                     "reader",
        "text": "Same state space as C05 with bit triples up to shard_bits "
                "70 / preshift 62; in every closed state every chunk is "
                "looked up by mc/oracle/shard_spec.py (written from the "
                "format text, Python ints): file name from the id, entry at "
                "the minishard's slot, strictly increasing ids, ranges "
                "inside the file and pairwise disjoint, RFC 1952 gzip, "
                "exact bytes, no unexpected files.",
        "note": "Trusts DESIGN.md App. A.1 as the specification; zlib "
                "framing of 'gzip' is a recorded known finding (pinned by an "
                "existing unit test).",
    },
    "C02": {
        "engine": "E-INPUT", "level": "exploration",
        "technique": "bounded exhaustive enumeration of ALL small label "
                     "arrays x block sizes x dtypes vs a decoder/validator "
                     "written from the format text",
        "text": "Every label array over a 2-letter (quick) / 3-letter "
                "(thorough) alphabet (incl. 2^32-1, 2^53+1, 2^64-1) for "
                "every shape with <= 8 voxels, as 1- and 2-channel chunks, "
                "is encoded with 12 / 20 block sizes (cubic, non-cubic, "
                "larger than the chunk, non-dividing) for uint32 and "
                "uint64; plus a bit-width ladder (1..65537 labels per "
                "block, every bit width 0..32), shared tables, tables "
                "differing above bit 32 and ramp-filled shapes up to 16^3. "
                "Each buffer is validated and decoded by "
                "mc/oracle/cseg_spec.py (Python ints, from the format text) "
                "and by the package decoder; both must return the original."
                " A byte-coincidence family builds two-block chunks in which the bytes of the second block's table occur at an unaligned position inside the first block's table (1548 / 3220 chunks).",
        "note": "Trusts DESIGN.md App. A.2; chunks of at most 8 voxels for "
                "the all-arrays part (small-scope: axis/bit-order bugs show "
                "there).",
    },
    "C10": {
        "engine": "E-INPUT", "level": "exploration",
        "technique": "deviation-bounded exhaustive enumeration: every "
                     "truncation / byte edit / header-word edit (pairs in "
                     "thorough) of valid buffers + all short byte strings",
        "text": "Valid buffers are built by harness-side encoders (spec "
                "encoder incl. layouts the package never emits, Pillow, "
                "tobytes). 0 deviations: they must decode to the right "
                "array. 1 deviation: every truncation length, every byte "
                "position x byte alphabet (all 256 values in thorough), "
                "every header word x boundary values and every bits value. "
                "2 deviations (thorough): all pairs of header-word and "
                "header-byte edits. Plus all byte strings of length <= 2 "
                "and <= 6/8 over a 5-letter alphabet for six decoder "
                "configurations. Each decode must return exactly the "
                "requested shape/dtype or raise InvalidFormatError; "
                "still-spec-valid compressed_segmentation buffers must "
                "decode to the specified labels; a CPU-time watchdog "
                "reports hangs."
                " Header-word edits include every single-bit flip.",
        "note": "Chunks of at most 24 voxels; JPEG validity after mutation "
                "is not judged (only shape/dtype or the documented error).",
    },
    "C17": {
        "engine": "E-INPUT", "level": "exploration",
        "technique": "bounded exhaustive enumeration (mesh shapes, every "
                     "truncation/byte edit/short byte string for the "
                     "reader, signed-permutation affine lattice, script "
                     "option product) vs struct-layout / VTK-subset / "
                     "signed-volume oracles",
        "text": "Writers: 25 (V,M) mesh shapes x 4 attribute sets compared "
                "with the struct layout, read back, and the VTK text parsed "
                "by a subset-grammar parser. Reader: every truncation, "
                "every byte position x all 256 values, count/index field "
                "edits of 5 valid files, all byte strings of length <= 2 "
                "(<= 3 thorough) and <= 7 over 5 letters, each classified "
                "valid/invalid by the format text: valid must be returned "
                "exactly, invalid must raise InvalidMeshDataError. Affine: "
                "tetrahedron and cube x (192 signed scaled permutations + "
                "shears, rotation, near-singular, singular) x 3 "
                "translations x 3x4/4x4 forms: vertices, winding parity "
                "reversed iff det < 0, signed volume sign. Scripts: GIFTI "
                "conversion (mm to nm, info mesh key, mismatching "
                "--mesh-dir refused, transforms) and fragment-link tables "
                "(exact file set and JSON)."
                " Transforms given on the command line include re-centring a mesh 1000 mm from the origin and non-dyadic shears (float64 reference).",
        "note": "Trusts DESIGN.md App. A.4/A.5; vertex positions compared "
                "with stated float tolerances.",
    },
    "C12": {
        "engine": "E-STATE", "level": "model_checking",
        "technique": "explicit-state BFS over store histories on a real "
                     "directory (state = full directory tree), dict "
                     "reference model, every reader configuration in every "
                     "state; path-confinement lattice",
        "text": "For each of 7 writer configurations (flat/deep x gzip "
                "on/off x compresslevel, sharded accessor file methods) all "
                "histories of store_file/store_chunk operations up to depth "
                "3 (quick) / 4 (thorough) over 3 file names, 2 chunk "
                "positions, 3 contents (incl. empty) and overwrite T/F are "
                "explored breadth-first with deduplication on the complete "
                "directory tree; in every state every name is fetched and "
                "probed through accessors of all four layouts and compared "
                "with a last-write-wins dict model; refused overwrites must "
                "leave the tree unchanged; files must sit at the documented "
                "paths with .gz members that are valid RFC 1952 streams of "
                "the stored bytes, and nothing else may appear. A second "
                "family changes the MIME type of a name between stores. "
                "Confinement: 14 spellings x 4 operations x 3 accessors "
                "with a sentinel sibling directory."
                " Outside names include ones below directories that do not exist yet; nothing outside the dataset directory may be created."
                " Names ending in .gz (alone in their dataset) and a sibling directory sharing the dataset directory's name as a prefix are included.",
        "note": "Operations are sequential; contents are 3 byte strings; "
                "one writer configuration per history.",
    },
    "C08": {
        "engine": "E-INPUT", "level": "exploration",
        "technique": "bounded exhaustive lattice sweep (sizes^3 x "
                     "resolutions^3 x targets x max_scales; parameter "
                     "product) with per-sub-claim arithmetic predicates",
        "text": "The full product of 5 (quick) / 7 (thorough) sizes per "
                "axis (1 .. 10^9) x 7 / 11 resolutions per axis (fractional, "
                "non-power-of-two ratios, 1:25000 anisotropy) x target "
                "chunk sizes x max_scales is run through "
                "fill_scales_for_dyadic_pyramid (a fixed 1/50 slice through "
                "generate_scales_info with JSON files), and each sub-claim "
                "is checked with integer/rational arithmetic under its own "
                "signature: distinct keys, power-of-two factors in steps of "
                "1 or 2, power-of-two chunks of about target^3 voxels, last "
                "scale within two target chunks, coarse axes catching up, "
                "encoder acceptance, chunk compatibility with the pyramid "
                "computation. The type/encoding/data_type/channels product "
                "(720 combinations) goes through set_info_params end to "
                "end."
                " A consumer family hands generated descriptions (incl. one-voxel axes) to the real compute_dyadic_scales on tiny datasets: accepted inside the envelope, every level readable."
                " The quick tier also runs a quarter of its geometries with max_scales 1..3.",
        "note": "Lattice, not all positive reals; 'compatible' = the "
                "envelope stated in the module. Five recorded known "
                "findings, matched by failure class, target and number of "
                "distinct downscaling delays.",
    },
    "C16": {
        "engine": "E-INPUT", "level": "exploration",
        "technique": "bounded exhaustive lattice of affines (all 48 signed "
                     "permutations + rotations/shears) x voxel sizes x "
                     "translations x layouts x dtypes x scalings vs the "
                     "centre/corner identity",
        "text": "Real NIfTI files are written for every combination of 53 "
                "direction matrices (all signed axis permutations, "
                "rotations, shears, cyclic rotation) x voxel sizes x "
                "translations x shapes, and for the layout product (3-D, "
                "4-D x2/x3, RGB x 9 stored dtypes x 6 header scalings x "
                "ignore-scaling x input-max) and sharding option strings "
                "(valid and malformed); volume_file_to_info is run and "
                "info_fullres.json / transform.json are checked: size, "
                "channels, resolution = voxel size in nm, data type and "
                "imperfect-type status, sharding block, and for the 27 "
                "voxels {0,1,n-1}^3 that T((i+1/2)*res) equals 1e6*A*i "
                "(1e-9 relative); the compact URL form must parse back to "
                "the identical matrix."
                " Files are also written big-endian (every stored type x scaling x options on one direction).",
        "note": "Lattice of affines, not all invertible matrices; the "
                "reference affine is the one the file states (float32 in "
                "NIfTI).",
    },
    "C03": {
        "engine": "E-STATE", "level": "model_checking",
        "technique": "explicit-state exploration of write histories on the "
                     "real PrecomputedIO (all ordered selections, dedup on "
                     "directory tree + model) with same/fresh-handle reads "
                     "in every state; full coordinate lattice",
        "text": "For every configuration (5 data types x 1-3 channels x raw "
                "/ compressed_segmentation with cubic, small and non-cubic "
                "blocks / JPEG xy,xz x six accessors incl. sharded with "
                "both buffering strategies x one- and two-scale infos) "
                "every ordered selection of up to 3 (quick) / 4 (thorough) "
                "writes to distinct chunks (interior, border, corner, "
                "coarse scale) with contents that include big-endian and "
                "non-contiguous arrays is executed; in every state every "
                "chunk of every scale is read by the writing handle and by "
                "a freshly opened accessor and compared with a dict model "
                "(exact for raw/compressed_segmentation, |error| <= 8 on "
                "calibrated ramps for JPEG; unwritten chunks must not yield "
                "data). All 11^6 coordinate tuples around the grid are "
                "compared with the grid predicate and every rejected "
                "near-valid tuple is offered to write_chunk (must raise, "
                "tree unchanged)."
                " A reopen family rewrites a chunk through a handle opened on the same directory with the other compression setting and reads it through both handles and a fresh one."
                " Arrays returned by earlier reads are compared again after the last read through the same handle.",
        "note": "Volumes of 5x4x3 voxels; JPEG bound depends on the "
                "installed libjpeg (stated in ASSUMPTIONS).",
    },
    "C15": {
        "engine": "E-INPUT", "level": "exploration",
        "technique": "bounded exhaustive enumeration of all 48 orientation "
                     "codes x sizes x chunk sizes x pixel kinds x storage "
                     "vs an index-mapping reference",
        "text": "For each of the 48 codes and each size / chunk size / "
                "pixel kind (grey 8 and 16 bit, RGB, two directories) / "
                "storage (flat, deep+gzip, sharded) real position-coded PNG "
                "slices are written (and verified by re-reading), "
                "convert_slices_in_directory is run in-process, and the "
                "whole full-resolution scale is read back through a fresh "
                "accessor and compared voxel by voxel with the volume the "
                "orientation code designates; slice counts below, equal to "
                "and not divisible by the chunk depth occur on every axis."
                " A share of the cases runs through main(argv) of slices-to-precomputed (default orientation omitted, channel directories whose command-line order is not lexicographic, codes in lower / mixed case).",
        "note": "Volumes of at most 6x2x9 voxels (small-scope: axis "
                "permutation, flip and window bugs show there).",
    },
    "C01": {
        "engine": "E-INPUT", "level": "exploration",
        "technique": "bounded exhaustive enumeration, factorised (value "
                     "mapping product / tiling product / encoding x storage "
                     "product) vs exact rational value map + index map",
        "text": "Real NIfTI files are written with nibabel and converted by "
                "the function under the volume-to-precomputed CLI with the "
                "CLI's option dict; scale 0 is read back chunk by chunk "
                "through a fresh accessor + PrecomputedIO. (A) 8 input "
                "types x 5 header scalings x ignore-scaling x 4 min/max "
                "settings x 5 target types x full/mmap on a volume of type "
                "limits, ties and out-of-range values, expected values "
                "computed in Fractions (dyadic parameters make nibabel's "
                "float path exact); (B) 66 shapes x 6 chunk sizes x 3-D / "
                "4-D x2 / x3 / RGB x full/mmap with position-coded voxels "
                "(index map out[c,z,y,x] = in[x,y,z,c]); (C) raw / "
                "compressed_segmentation 8^3, 2^3 / JPEG x 4 file layouts + "
                "3 sharding configurations."
                " Part of the value cases runs through main(argv) of volume-to-precomputed; ranges include descending ones (inverted contrast)."
                " Input files are also written big-endian.",
        "note": "Volumes of at most 9x4x3 voxels; uint64 targets with "
                "min/max mapping are compared within one unit of float64 "
                "precision (documented limitation of the tool).",
    },
    "C06": {
        "engine": "E-INPUT", "level": "exploration",
        "technique": "bounded exhaustive enumeration of generator-produced "
                     "infos (sizes x resolution ratios x targets; methods x "
                     "dtypes x channels x storage) with a differential "
                     "oracle (whole-level downscale) and double poison runs",
        "text": "Infos come from the real scale generator over 199 sizes x "
                "127 resolution triples x 3 target chunk sizes (a fixed "
                "slice of the 75819-element product per tier) and a methods "
                "x data types x channels x storage product on 12 "
                "geometries; scale 0 is written position-coded through "
                "PrecomputedIO, compute_dyadic_scales runs twice with "
                "numpy.empty replaced by poison fills 251 and 253, all "
                "levels are read back through a fresh accessor; every level "
                "must be identical in both runs (no unwritten voxel) and "
                "equal the package's downscaler applied to the whole "
                "previous level. An exception is accepted only outside the "
                "envelope the computation supports; outside the envelope a "
                "normal return must still be correct."
                " A share of the cases (all methods / outside values / auto selection x 3 storages, and hand-made scale pairs) runs through main(argv) of compute-scales, where a refusal must be a non-zero exit status."
                " Float32 volumes hold values whose sums are not exactly representable in float32.",
        "note": "Volumes of at most 700 voxels; the downscaler itself is "
                "C07's business.",
    },
    "C14": {
        "engine": "E-DEV", "level": "model_checking",
        "technique": "deviation-bounded exploration over an in-process HTTP "
                     "transport: every request of a fetch/exists history x "
                     "every answer of the fault menu (bound 1, 2 in "
                     "thorough); 0-deviation equivalence with the local "
                     "accessor",
        "text": "Datasets written by the real file accessors (plain flat "
                "gzip / flat / deep behind the documented rewrite; sharded "
                "28 bit triples x raw/gzip x 2 grids, as .shard files and "
                "as legacy .index/.data pairs) are served by a static-file "
                "model of docs/serving-data.rst through a requests adapter. "
                "0 deviations: every chunk, the info, file_exists and a "
                "missing chunk through 4 URL spellings must equal the local "
                "accessor's result, and dispatch to the sharded reader must "
                "happen exactly when every scale declares sharding (8 info "
                "variants incl. malformed/missing). Deviations: each "
                "request of the history is answered with each menu entry "
                "(404/403/500/503, Range ignored, short/long replies, "
                "empty body, connection error, timeout, broken mid-body); "
                "every operation must return the fault-free bytes or raise "
                "(DataAccessError for plain datasets), never empty, partial "
                "or other bytes, never False from file_exists on a 5xx. "
                "Replayed prefixes must match the recording (hard error "
                "otherwise)."
                " Two plain datasets have chunk contents that start with the gzip / zlib magic numbers or are complete compressed streams.",
        "note": "The socket, TLS, proxies and redirects are below the seam; "
                "undetectable lies of a server (a different complete file) "
                "are not in the menu.",
    },
    "C13": {
        "engine": "E-INPUT", "level": "exploration",
        "technique": "bounded exhaustive enumeration over programs: source "
                     "kind x destination kind x dtype widening x copy-info "
                     "(3744 real convert-chunks runs) vs exact conversion "
                     "of the decoded source",
        "text": "Two-scale sources (different chunk sizes per scale, 1-3 "
                "channels, 5 data types, raw / compressed_segmentation / "
                "JPEG) are written through PrecomputedIO into 4 file "
                "layouts, a sharded directory, or served over the HTTP "
                "seam (flat, gzip_static, sharded); convert-chunks is run "
                "in-process through main(argv) followed by the exit "
                "handlers, towards every destination encoding (raw, "
                "compressed_segmentation 8^3/2^3) x layout x sharding "
                "(1,1,0)/raw and (2,1,1)/gzip x same or wider data type, "
                "with a pre-existing info or --copy-info. Every chunk of "
                "every scale of both datasets is decoded through fresh "
                "handles: destination == exact conversion of the decoded "
                "source, destination info as requested, source tree hash "
                "unchanged, exit status 0."
                " Command-line spellings: destination as path, file:// or precomputed://file:// URL; --compresslevel omitted or 0..9.",
        "note": "Volumes of 5x4x3 voxels; the destination info has the "
                "source's geometry (documented precondition).",
    },
    "C19": {
        "engine": "E-STATE", "level": "model_checking",
        "technique": "explicit-state BFS over sequences of the real CLI "
                     "commands (in-process main(argv) + exit handlers), "
                     "states = canonical workspace content, with "
                     "differential (all-in-one vs steps), idempotence and "
                     "completeness oracles",
        "text": "For 7 synthetic volumes (2-3 scales; isotropic, "
                "anisotropic in z and in x, float with header slope, label "
                "volume as compressed segmentation) x 4 option sets "
                "(default, --flat --no-gzip, --no-gzip, --sharding 1,1,0) x "
                "full/mmap x explicit/auto downscaling method, all "
                "sequences of the 8 commands (generate-info, "
                "generate-scales-info, volume-to-precomputed, "
                "compute-scales, all-in-one pyramid, prepare + "
                "convert-chunks, scale-stats) up to depth 6 (quick) / 9 "
                "(thorough) are explored breadth-first from an empty "
                "workspace, deduplicated on the canonical content (file "
                "listing, parsed info/transform JSON, dtype/shape/hash of "
                "every decoded scale of three dataset directories); failed "
                "commands are transitions too. Checked on every "
                "transition: status 0 implies every chunk of every scale "
                "the command is responsible for exists and decodes; a "
                "data-writing command repeated on its own output leaves the "
                "decoded contents unchanged; scale-stats changes nothing; "
                "and the all-in-one state equals the step-by-step state "
                "(info and voxels of every scale)."
                " Option sets include --outside-value 0, ranges through the default lower bound and descending ranges."
                " A uint8 volume with header scaling and an option set with --ignore-scaling alone are included."
                " The slice-stack workflow cuts the stack in one of six orientations per unit.",
        "note": "Volumes of at most 130x20x40 voxels; the all-in-one "
                "command has no --sharding option, so that equality is "
                "checked for unsharded option sets only.",
    },
    "C18": {
        "engine": "E-DEV", "level": "fault_enumeration",
        "technique": "deviation-bounded exhaustive fault and crash "
                     "enumeration at system-call granularity: every call of "
                     "the operation under test x {errno menu, short writes, "
                     "kill before/after}, bound 1 (quick) / 2 (thorough); "
                     "plus a kernel-level enumeration under strace of every "
                     "read/write system call (bound 1)",
        "text": "A harness-side seam (builtins.open -> _pyio.open, wrapped "
                "os.* calls) makes every system call under the dataset root "
                "a point while user-space buffering stays real. For 46 file "
                "accessor scenarios (4 layouts x raw / "
                "compressed_segmentation x write new / overwrite / "
                "overwrite stored with the other compression / store_file / "
                "read / fetch / exists) and 12 sharded scenarios (2 "
                "buffering strategies x raw/gzip x write a new shard / "
                "rewrite a shard / read) the operation is recorded "
                "fault-free, then re-executed once per (point, answer): "
                "errno from the menu, short write of 1 or n-1 bytes with a "
                "failing retry, process death before or after the call "
                "(dead mode drops every later mutating call, so buffers are "
                "lost as with SIGKILL). Oracle A: the operation raises "
                "DataAccessError or an OSError, or returns with result and "
                "tree identical to the fault-free run; earlier data stays "
                "intact; a store that failed before opening its target "
                "leaves the old version. Oracle B: a fresh reader decodes "
                "every chunk to an acknowledged or in-flight version or "
                "fails; never other values. Replayed prefixes must match "
                "the recording. A second enumeration decides the same "
                "oracles at the kernel: the operation runs in a child "
                "process under strace and every read- or write-class system "
                "call on a dataset file - also those issued by C code such "
                "as numpy.fromfile/tofile, which the seam cannot see - is "
                "failed (EIO / ENOSPC) or preceded by SIGKILL, one "
                "deviation per run.",
        "note": "Process-death crash model (no fsync reordering); points "
                "are calls under the dataset root (temp buffers of the "
                "on-disk strategy are outside); HTTP faults are explored by "
                "C14.",
    },
}
