"""C17 - mesh files follow the formats Neuroglancer reads and survive a round
trip; the reader rejects malformed data; affine transforms keep orientation;
conversion scripts scale mm->nm and write exactly the fragment links.
"""
import io
import itertools
import json
import os
import struct

import numpy as np

from mc.env import sandbox
from mc.oracle import mesh_spec
from mc.runner import Collector

ID = "C17"
LEVEL = "exploration"
REQUIRED_CLASSES = ["writer-ok", "reader-accepts-valid",
                    "reader-rejects-invalid", "affine-ok", "gifti-ok",
                    "links-ok"]
RULE = ("(writers) meshes with V in {0,1,3,4,8} vertices x M in {0,1,2,4,12} "
        "triangles (indices at the bounds, coordinates from {0,+-1.5,1e6,"
        "0.1}) x attribute sets (k in 1,3,4) x memory layouts {C, Fortran, strided, "
        "transposed} and 13 other vertex / triangle array data types (narrow integers, float16/64, big-endian): precomputed bytes == "
        "struct layout, read back equal, VTK output parsed by a subset "
        "parser; (reader) every truncation, every byte position x all 256 "
        "values, count and index field "
        "edits of 3 valid files, all byte strings of length <= 2 (quick) / "
        "3 (thorough) and <= 7 over 5 letters: result must be the mesh the "
        "layout defines or InvalidMeshDataError; (affine) tetrahedron and "
        "cube x 48 signed permutations x scales {1,-1,2,1e-6} + shears + "
        "near-singular/singular matrices x translations x input arrays "
        "{float32, float64, integer, read-only views}, each transformed "
        "twice (the first result must not change); (scripts) GIFTI "
        "conversion x transforms x mesh-dir options, fragment-link tables "
        "incl. 64-bit labels around 2^53 and 2^64-1 and non-canonical label "
        "spellings; the conversion function called three times with one "
        "transform array. "
        "Non-trivial: M >= 1, or the byte string is not a valid mesh, or "
        "the matrix is not the identity.")
ASSUMPTIONS = [
    "DESIGN.md Appendix A.4/A.5 restate the mesh layouts correctly",
    "vertex positions after an affine transform are compared with a "
    "float64 tolerance (1e-9 relative), after mm->nm conversion with a "
    "float32 tolerance (4e-7 relative)",
]
HOW_TO_READ = ("kind=writer: save_mesh_as_precomputed / _neuroglancer_vtk on "
               "the listed mesh; kind=reader: read_precomputed_mesh(BytesIO("
               "hex)); kind=affine: affine_transform_mesh(mesh, matrix); "
               "kind=gifti / links: the conversion scripts")

COORDS = [0.0, 1.5, -1.5, 1e6, 0.1]


def make_mesh(V, M):
    verts = [[COORDS[(i + j) % 5] + (i if j == 2 else 0) for j in range(3)]
             for i in range(V)]
    tris = []
    if V > 0:
        for i in range(M):
            tris.append([i % V, (i + 1) % V, V - 1])
    return verts, tris


# ---------------------------------------------------------------- writers
DTYPE_LAYOUTS = ["v:float64", "v:int8", "v:uint8", "v:int16", "v:uint16",
                 "v:int32", "v:float16", "v:>f4", "v:>f8", "t:uint8",
                 "t:uint16", "t:>u4", "t:>u2"]


def _eval_writer(col, V, M, attrs_k, layout="C"):
    from neuroglancer_scripts import mesh
    case = {"kind": "writer", "V": V, "M": M, "attrs": attrs_k,
            "layout": layout}
    verts, tris = make_mesh(V, M)
    va = np.array(verts, dtype=np.float32).reshape(V, 3)
    ta = np.array(tris, dtype=np.uint32).reshape(len(tris), 3)
    if layout == "F":
        va, ta = np.asfortranarray(va), np.asfortranarray(ta)
    elif layout == "strided":
        bv = np.zeros((V, 6), dtype=np.float32)
        bv[:, ::2] = va
        bt = np.zeros((len(tris), 6), dtype=np.uint32)
        bt[:, ::2] = ta
        va, ta = bv[:, ::2], bt[:, ::2]
    elif layout == "transposed":
        va = np.ascontiguousarray(va.T).T
        ta = np.ascontiguousarray(ta.T).T
    elif layout.startswith("v:") or layout.startswith("t:"):
        # other array data types (small integer coordinates, exactly
        # representable in each of them)
        if layout[0] == "v":
            va = (np.arange(V * 3).reshape(V, 3) * 3 % 120).astype(
                np.dtype(layout[2:]))
        else:
            ta = ta.astype(np.dtype(layout[2:]))
    ok = True
    try:
        b = io.BytesIO()
        mesh.save_mesh_as_precomputed(b, va, ta)
        got = b.getvalue()
    except Exception as exc:
        col.ev(1, 1 if M else 0, "writer-exception")
        col.violation("C17/precomputed-writer/exception/"
                      + type(exc).__name__, case, "bytes", repr(exc)[:200])
        return
    want = mesh_spec.pack(va.tolist(), ta.tolist())
    if got != want:
        ok = False
        col.violation("C17/precomputed-writer/layout", case, want.hex()[:200],
                      got.hex()[:200])
    try:
        rv, rt = mesh.read_precomputed_mesh(io.BytesIO(want))
        if (rv.shape != (V, 3) or rv.dtype != np.float32
                or not np.array_equal(rv, va.astype(np.float32))
                or np.asarray(rt).reshape(-1, 3).tolist() != ta.tolist()):
            ok = False
            col.violation("C17/round-trip/different-mesh", case,
                          "same vertices and triangles", "different")
    except Exception as exc:
        ok = False
        col.violation("C17/round-trip/exception/" + type(exc).__name__, case,
                      "the mesh", repr(exc)[:200])
    # VTK
    attrs = []
    for n, k in enumerate(attrs_k):
        vals = np.array([[(i * 3 + j) * 0.25 - 1 for j in range(k)]
                         for i in range(V)], dtype=np.float32).reshape(V, k)
        if k == 1 and n % 2 == 0:
            vals = vals[:, 0]
        attrs.append({"name": "attr%d" % n, "values": vals})
    try:
        s = io.StringIO()
        mesh.save_mesh_as_neuroglancer_vtk(s, va, ta, vertex_attributes=attrs,
                                           title="t" * (300 if V == 3 else 3))
        text = s.getvalue()
        pts, polys, pattrs = mesh_spec.parse_vtk(text)
        if [[np.float32(c) for c in p] for p in pts] != \
                [[np.float32(c) for c in p] for p in va.tolist()]:
            ok = False
            col.violation("C17/vtk/points-differ", case, va.tolist(), pts)
        if polys != ta.tolist():
            ok = False
            col.violation("C17/vtk/polygons-differ", case, ta.tolist(),
                          polys)
        if sorted(pattrs) != sorted(a["name"] for a in attrs):
            ok = False
            col.violation("C17/vtk/attributes-differ", case,
                          [a["name"] for a in attrs], sorted(pattrs))
        else:
            for a in attrs:
                k, rows = pattrs[a["name"]]
                want_rows = np.asarray(a["values"]).reshape(V, k).tolist()
                if [[np.float32(c) for c in r] for r in rows] != \
                        [[np.float32(c) for c in r] for r in want_rows]:
                    ok = False
                    col.violation("C17/vtk/attribute-values-differ", case,
                                  want_rows, rows)
    except mesh_spec.VtkError as exc:
        ok = False
        col.violation("C17/vtk/not-parseable", case,
                      "the subset grammar Neuroglancer accepts",
                      str(exc)[:200])
    except Exception as exc:
        ok = False
        col.violation("C17/vtk/exception/" + type(exc).__name__, case,
                      "VTK text", repr(exc)[:200])
    col.ev(1, 1 if M else 0, "writer-ok" if ok else "writer-bad")


# ----------------------------------------------------------------- reader
def _eval_reader(col, buf, origin):
    from neuroglancer_scripts import mesh
    case = {"kind": "reader", "hex": buf.hex(), "origin": origin}
    cls = mesh_spec.classify(buf)
    nontriv = 0 if cls[0] == "valid" and origin == "base" else 1
    try:
        rv, rt = mesh.read_precomputed_mesh(io.BytesIO(buf))
    except mesh.InvalidMeshDataError as exc:
        if cls[0] == "valid":
            col.ev(1, nontriv, "reader-rejects-valid")
            col.violation("C17/reader/valid-mesh-rejected", case,
                          "mesh with %d vertices, %d triangles" % cls[1:],
                          repr(exc)[:200])
        else:
            col.ev(1, nontriv, "reader-rejects-invalid")
        return
    except Exception as exc:
        col.ev(1, nontriv, "reader-other-exception")
        col.violation("C17/reader/leaked-exception/" + type(exc).__name__,
                      case, "mesh or InvalidMeshDataError", repr(exc)[:200])
        return
    if cls[0] == "invalid":
        col.ev(1, nontriv, "reader-accepts-invalid")
        col.violation("C17/reader/invalid-mesh-accepted", case,
                      "InvalidMeshDataError (%s)" % cls[1],
                      "%d vertices, %d triangles" % (len(rv), len(rt)))
        return
    V, M = cls[1], cls[2]
    wantv = np.frombuffer(buf[4:4 + 12 * V], "<f4").reshape(V, 3)
    wantt = np.frombuffer(buf[4 + 12 * V:], "<u4").reshape(M, 3)
    if (rv.shape != (V, 3) or np.asarray(rt).shape != (M, 3)
            or rv.tobytes() != wantv.tobytes()
            or np.asarray(rt).astype("<u4").tobytes() != wantt.tobytes()):
        col.ev(1, nontriv, "reader-wrong-mesh")
        col.violation("C17/reader/wrong-mesh", case, "layout-defined mesh",
                      "different arrays")
        return
    col.ev(1, nontriv, "reader-accepts-valid")


def reader_bases():
    out = []
    for V, M in ((3, 1), (1, 2), (4, 4), (0, 0), (2, 0)):
        verts, tris = make_mesh(V, M)
        out.append((V, M, mesh_spec.pack(verts, tris)))
    return out


def reader_buffers(tier):
    alpha_extra = [0x7f, 0x80, 0xff]
    for V, M, base in reader_bases():
        yield base, "base"
        for n in range(len(base)):
            yield base[:n], "truncation"
        yield base + b"\0", "extension"
        yield base + b"\0" * 11, "extension"
        yield base + b"\0" * 12, "extension"
        vals = range(256)      # cheap enough for both tiers
        for pos in range(len(base)):
            for v in vals:
                if base[pos] != v:
                    b = bytearray(base)
                    b[pos] = v
                    yield bytes(b), "byte-edit"
        # count field
        for v in {0, max(V - 1, 0), V + 1, 2 ** 32 - 1, 2 ** 31, M}:
            b = bytearray(base)
            struct.pack_into("<I", b, 0, v)
            yield bytes(b), "count-edit"
        # index fields
        for k in range(3 * M):
            for v in {max(V - 1, 0), V, V + 1, 2 ** 32 - 1, 2 ** 31}:
                b = bytearray(base)
                struct.pack_into("<I", b, 4 + 12 * V + 4 * k, v)
                yield bytes(b), "index-edit"


# ----------------------------------------------------------------- affine
def tetra():
    v = [[0, 0, 0], [1, 0, 0], [0, 1, 0], [0, 0, 1]]
    t = [[0, 2, 1], [0, 1, 3], [0, 3, 2], [1, 2, 3]]   # outward
    return v, t


def cube():
    v = [[x, y, z] for z in (0, 2) for y in (0, 1) for x in (0, 3)]
    q = [(0, 2, 3, 1), (4, 5, 7, 6), (0, 1, 5, 4), (2, 6, 7, 3),
         (0, 4, 6, 2), (1, 3, 7, 5)]
    t = []
    for a, b, c, d in q:
        t += [[a, b, c], [a, c, d]]
    return v, t


def signed_volume(v, t):
    v = np.asarray(v, dtype=np.float64)
    tot = 0.0
    for a, b, c in t:
        tot += np.linalg.det(np.array([v[a], v[b], v[c]]))
    return tot / 6.0


def matrices(tier):
    mats = []
    for perm in itertools.permutations(range(3)):
        for signs in itertools.product((1, -1), repeat=3):
            for s in (1.0, -1.0, 2.0, 1e-6):
                m = np.zeros((3, 3))
                for r in range(3):
                    m[r, perm[r]] = signs[r] * s
                mats.append(("signed-perm", m))
    sh = np.eye(3)
    sh[0, 1] = 0.3
    mats.append(("shear", sh))
    sh2 = -np.eye(3)
    sh2[2, 0] = 0.7
    mats.append(("shear-mirror", sh2))
    c, s = np.cos(0.5), np.sin(0.5)
    mats.append(("rotation", np.array([[c, -s, 0], [s, c, 0], [0, 0, 1]])))
    mats.append(("tiny-positive", np.diag([1e-4, 1e-4, 1e-4])))
    mats.append(("tiny-negative", np.diag([1e-4, 1e-4, -1e-4])))
    mats.append(("singular", np.diag([1.0, 1.0, 0.0])))
    mats.append(("singular2", np.array([[1.0, 2, 0], [2, 4, 0], [0, 0, 1]])))
    return mats


def _parity(row, orig):
    """+1 if row is an even permutation of orig, -1 if odd, 0 otherwise"""
    row, orig = list(row), list(orig)
    if sorted(row) != sorted(orig) or len(set(orig)) != 3:
        return 0
    perm = [orig.index(x) for x in row]
    inv = sum(1 for i in range(3) for j in range(i + 1, 3)
              if perm[i] > perm[j])
    return 1 if inv % 2 == 0 else -1


INPUT_KINDS = ("float32", "float64", "int32", "readonly")


def _eval_affine(col, meshname, name, m, trans, rows, inp="float32"):
    from neuroglancer_scripts import mesh
    v, t = tetra() if meshname == "tetra" else cube()
    full = np.zeros((rows, 4))
    full[:3, :3] = m
    full[:3, 3] = trans
    if rows == 4:
        full[3, 3] = 1
    case = {"kind": "affine", "mesh": meshname, "matrix": full.tolist(),
            "matrix_kind": name}
    if inp != "float32":
        case["input"] = inp
    va = np.array(v, dtype=np.float32)
    ta = np.array(t, dtype=np.uint32)
    if inp == "float64":
        va = va.astype(np.float64)
    elif inp == "int32":
        va = va.astype(np.int32)          # vertex coordinates are integers
    elif inp == "readonly":
        # what read_precomputed_mesh hands out: views of a bytes object
        va = np.frombuffer(va.tobytes(), dtype=np.float32).reshape(va.shape)
        ta = np.frombuffer(ta.tobytes(), dtype=np.uint32).reshape(ta.shape)
    nontriv = 0 if (np.array_equal(m, np.eye(3)) and not any(trans)) else 1
    try:
        vin = va if inp == "readonly" else va.copy()
        tin = ta if inp == "readonly" else ta.copy()
        rv, rt = mesh.affine_transform_mesh(vin, tin, full)
        first = (np.array(rv, copy=True), np.array(rt, copy=True))
        # a later call (another transform of the same loaded mesh) must not
        # change the arrays returned by this one
        full2 = np.array(full, copy=True)
        full2[:3, 3] += 1.0
        mesh.affine_transform_mesh(vin, tin, full2)
        if not (np.array_equal(np.asarray(rv), first[0])
                and np.array_equal(np.asarray(rt), first[1])):
            col.violation("C17/affine/earlier-result-changed-by-a-later-call",
                          case, "returned arrays stay as returned",
                          "changed after transforming the same mesh again")
            rv, rt = first
    except Exception as exc:
        col.ev(1, nontriv, "affine-exception")
        col.violation("C17/affine/exception/" + type(exc).__name__, case,
                      "transformed mesh", repr(exc)[:200])
        return
    ok = True
    want = (np.asarray(m, dtype=np.float64) @ np.asarray(v, float).T).T \
        + np.asarray(trans, float)
    scale = max(1e-30, float(np.max(np.abs(want))))
    if (np.asarray(rv).shape != want.shape
            or np.max(np.abs(np.asarray(rv, float) - want)) > 1e-6 * scale):
        ok = False
        col.violation("C17/affine/vertices", case, want.tolist(),
                      np.asarray(rv).tolist())
    det = float(np.linalg.det(np.asarray(m, dtype=np.float64)))
    rt = np.asarray(rt)
    if rt.shape != ta.shape:
        ok = False
        col.violation("C17/affine/triangle-shape", case, ta.shape, rt.shape)
    else:
        par = {_parity(r, o) for r, o in zip(rt.tolist(), ta.tolist())}
        want_par = -1 if det < 0 else 1
        if par != {want_par}:
            ok = False
            col.violation("C17/affine/winding/%s" % (
                "mirror-not-reversed" if det < 0 else "reversed-without-"
                "mirror"), case, "parity %d (det %.3g)" % (want_par, det),
                sorted(par))
        if abs(det) > 1e-9 and ok:
            v0 = signed_volume(v, t)
            v1 = signed_volume(np.asarray(rv, float), rt.tolist())
            if v0 * v1 <= 0:
                ok = False
                col.violation("C17/affine/orientation-not-preserved", case,
                              "same sign as %.3g" % v0, v1)
    col.ev(1, nontriv, "affine-ok" if ok else "affine-bad")


# ---------------------------------------------------------------- scripts
def _write_info(d, with_mesh=None, typ="segmentation"):
    info = {"type": typ, "data_type": "uint32", "num_channels": 1,
            "scales": [{"key": "s0", "size": [1, 1, 1],
                        "chunk_sizes": [[1, 1, 1]], "resolution": [1, 1, 1],
                        "voxel_offset": [0, 0, 0], "encoding": "raw"}]}
    if with_mesh is not None:
        info["mesh"] = with_mesh
    with open(os.path.join(d, "info"), "w") as f:
        json.dump(info, f)


def _eval_gifti(col, case):
    import nibabel
    from nibabel import gifti
    d = sandbox.fresh_dir("c17")
    try:
        v, t = cube() if case["mesh"] == "cube" else tetra()
        va = np.array(v, dtype=np.float32) * 0.5 + np.float32(0.1)
        if case.get("offset"):
            va = va + np.float32(case["offset"])
        ta = np.array(t, dtype=np.int32)
        img = gifti.GiftiImage(darrays=[
            gifti.GiftiDataArray(va, intent="NIFTI_INTENT_POINTSET",
                                 datatype="NIFTI_TYPE_FLOAT32"),
            gifti.GiftiDataArray(ta, intent="NIFTI_INTENT_TRIANGLE",
                                 datatype="NIFTI_TYPE_INT32")])
        src = os.path.join(d, case.get("src_name", "m.surf.gii"))
        nibabel.save(img, src)
        ds = os.path.join(d, "ds")
        os.makedirs(ds)
        _write_info(ds, with_mesh=case["info_mesh"])
        args = [src, ds]
        if case["mesh_dir"] is not None:
            args += ["--mesh-dir", case["mesh_dir"]]
        if case["name"] is not None:
            args += ["--mesh-name", case["name"]]
        m = None
        if case["transform"] is not None:
            m = np.array(case["transform"], dtype=float)
            args += ["--coord-transform=" + ",".join(
                repr(float(x)) for x in m.ravel())]
        args += case["opts"]
        r = sandbox.run_cli("mesh_to_precomputed", args)
        eff_dir = case["mesh_dir"] or "mesh"
        expect_fail = (case["info_mesh"] is not None
                       and eff_dir != case["info_mesh"])
        if expect_fail:
            if r.status == 0 or r.exc is not None:
                col.ev(1, 1, "gifti-bad")
                col.violation("C17/mesh-to-precomputed/mismatching-mesh-dir-"
                              "not-refused", case, "exit status 1",
                              r.brief())
            else:
                col.ev(1, 1, "gifti-ok")
            return
        if not r.ok:
            col.ev(1, 1, "gifti-failed")
            col.violation("C17/mesh-to-precomputed/failed", case, "status 0",
                          r.brief())
            return
        ok = True
        info = json.load(open(os.path.join(ds, "info"))) if os.path.exists(
            os.path.join(ds, "info")) else None
        if info is None or info.get("mesh") != eff_dir:
            ok = False
            col.violation("C17/mesh-to-precomputed/info-mesh-key", case,
                          eff_dir, None if info is None else info.get("mesh"))
        from neuroglancer_scripts import accessor, mesh
        acc = accessor.get_accessor_for_url(ds)
        # default fragment name = input file name without its last suffix
        name = case["name"] or case.get("src_name", "m.surf.gii")[:-4]
        try:
            buf = acc.fetch_file(eff_dir + "/" + name)
            rv, rt = mesh.read_precomputed_mesh(io.BytesIO(buf))
        except Exception as exc:
            col.ev(1, 1, "gifti-bad")
            col.violation("C17/mesh-to-precomputed/output-unreadable/"
                          + type(exc).__name__, case, "mesh file",
                          repr(exc)[:200])
            return
        pts = va.astype(np.float64)
        tri = ta.tolist()
        if m is not None:
            m4 = m.reshape(-1, 4)
            pts = (m4[:3, :3] @ pts.T).T + m4[:3, 3]
            if np.linalg.det(m4[:3, :3]) < 0:
                tri = [r[::-1] for r in tri]
        want = pts * 1e6
        scale = float(np.max(np.abs(want))) or 1.0
        if rv.shape != want.shape or np.max(np.abs(rv - want)) > 4e-7 * scale:
            ok = False
            col.violation("C17/mesh-to-precomputed/vertices-not-in-nm", case,
                          want.tolist()[:3], np.asarray(rv).tolist()[:3])
        if np.asarray(rt).tolist() != [list(map(int, r)) for r in tri]:
            ok = False
            col.violation("C17/mesh-to-precomputed/triangles", case, tri[:3],
                          np.asarray(rt).tolist()[:3])
        col.ev(1, 1, "gifti-ok" if ok else "gifti-bad")
    finally:
        sandbox.rm(d)


def _eval_gifti_reuse(col):
    """the library function behind mesh-to-precomputed called three times
    with ONE transform array (float64 ndarray 4x4 and 3x4, float32 4x4):
    every mesh must be placed by that transform, and the caller's array
    must not change"""
    import nibabel
    from nibabel import gifti

    from neuroglancer_scripts import accessor, mesh
    from neuroglancer_scripts.scripts import mesh_to_precomputed as m2p
    d = sandbox.fresh_dir("c17r")
    try:
        v, t = cube()
        va = np.array(v, dtype=np.float32) * 0.5 + np.float32(0.1)
        ta = np.array(t, dtype=np.int32)
        src = os.path.join(d, "m.surf.gii")
        nibabel.save(gifti.GiftiImage(darrays=[
            gifti.GiftiDataArray(va, intent="NIFTI_INTENT_POINTSET",
                                 datatype="NIFTI_TYPE_FLOAT32"),
            gifti.GiftiDataArray(ta, intent="NIFTI_INTENT_TRIANGLE",
                                 datatype="NIFTI_TYPE_INT32")]), src)
        base = np.array([[0, -2, 0, 5], [1, 0, 0, -3], [0, 0, 1.5, 0.25],
                         [0, 0, 0, 1]], dtype=np.float64)
        for kind in ("f64-4x4", "f64-3x4", "f32-4x4"):
            if kind == "f64-4x4":
                tr = base.copy()
            elif kind == "f64-3x4":
                tr = base[:3].copy()
            else:
                tr = base.astype(np.float32)
            keep = json.dumps(np.asarray(tr).tolist())
            for k in range(3):
                case = {"kind": "gifti-reuse", "transform_kind": kind,
                        "call": k}
                ds = os.path.join(d, "ds-%s-%d" % (kind, k))
                os.makedirs(ds)
                _write_info(ds)
                try:
                    with sandbox.quiet():
                        m2p.mesh_file_to_precomputed(
                            src, ds, mesh_name="m", coord_transform=tr)
                    buf = accessor.get_accessor_for_url(ds).fetch_file(
                        "mesh/m")
                    rv, _ = mesh.read_precomputed_mesh(io.BytesIO(buf))
                except Exception as exc:
                    col.ev(1, 1, "gifti-bad")
                    col.violation("C17/mesh-to-precomputed/reuse/exception/"
                                  + type(exc).__name__, case, "a mesh",
                                  repr(exc)[:200])
                    continue
                want = ((base[:3, :3] @ va.astype(np.float64).T).T
                        + base[:3, 3]) * 1e6
                scale = float(np.max(np.abs(want)))
                ok = True
                if rv.shape != want.shape or \
                        np.max(np.abs(rv - want)) > 4e-7 * scale:
                    ok = False
                    col.violation("C17/mesh-to-precomputed/reuse/vertices-"
                                  "not-in-nm", case, want.tolist()[:2],
                                  np.asarray(rv).tolist()[:2])
                if json.dumps(np.asarray(tr).tolist()) != keep:
                    ok = False
                    col.violation("C17/mesh-to-precomputed/reuse/caller-"
                                  "transform-modified", case, keep,
                                  json.dumps(np.asarray(tr).tolist()))
                    tr = (base.copy() if kind == "f64-4x4" else
                          base[:3].copy())
                col.ev(1, 1, "gifti-ok" if ok else "gifti-bad")
        col.sample({"kind": "gifti-reuse", "transform_kind": "f64-4x4",
                    "call": 1})
    finally:
        sandbox.rm(d)


def gifti_cases():
    out = []
    ident = [1, 0, 0, 0, 0, 1, 0, 0, 0, 0, 1, 0]
    mirror = [-1, 0, 0, 5, 0, 1, 0, 0, 0, 0, 1, -2.5]
    full16 = [0, 2, 0, 1, 1, 0, 0, 2, 0, 0, 1, 3, 0, 0, 0, 1]
    for meshname in ("tetra", "cube"):
        for tr in (None, ident, mirror, full16):
            for info_mesh, mesh_dir in ((None, None), (None, "surf"),
                                        ("mesh", None), ("mesh", "mesh"),
                                        ("mesh", "other"), ("surf", None)):
                for opts in ([], ["--no-gzip"]):
                    out.append({"kind": "gifti", "mesh": meshname,
                                "transform": tr, "info_mesh": info_mesh,
                                "mesh_dir": mesh_dir,
                                "name": "frag1" if tr is ident else None,
                                "opts": opts})
    # a mesh far from the origin re-centred by the transform (coefficients
    # that are not dyadic fractions; the result is small against the terms
    # that cancel), in the 12- and the 16-number spelling, with a mirror
    recentre = [1, 0, 0, -999.9, 0, 1, 0, -1000.3, 0, 0, 1, -1000.05]
    recentre_m = [-1, 0, 0, 1000.7, 0, 1, 0, -999.9, 0, 0, 1, -1000.3,
                  0, 0, 0, 1]
    shear = [0.1, 0.7, 0, 0.3, 0, 0.3, 0.9, -0.6, 1.1, 0, 0.7, 0.2]
    for meshname in ("tetra", "cube"):
        for tr, off in ((recentre, 1000.0), (recentre + [0, 0, 0, 1], 1000.0),
                        (recentre_m, 1000.0), (shear, None),
                        (shear, 1000.0)):
            out.append({"kind": "gifti", "mesh": meshname, "transform": tr,
                        "info_mesh": None, "mesh_dir": None, "name": None,
                        "opts": [], "offset": off})
    # default fragment names for input names ending in characters of ".gii"
    for src_name in ("ctx_seg.gii", "hippocampi.gii", "a.g.i.gii",
                     "lh.pial.gii", "gii.gii", "x..gii"):
        out.append({"kind": "gifti", "mesh": "tetra", "transform": None,
                    "info_mesh": None, "mesh_dir": None, "name": None,
                    "opts": [], "src_name": src_name})
    return out


def _eval_links(col, case):
    d = sandbox.fresh_dir("c17l")
    try:
        ds = os.path.join(d, "ds")
        os.makedirs(os.path.join(ds, "mesh"))
        _write_info(ds, with_mesh="mesh")
        for frag in case["existing"]:
            with open(os.path.join(ds, "mesh", frag), "wb") as f:
                f.write(mesh_spec.pack([[0, 0, 0]], []))
        csvp = os.path.join(d, "t.csv")
        with open(csvp, "w", newline="") as f:
            for label, frags in case["table"]:
                f.write(",".join([str(label)] + frags) + "\r\n")
        args = [csvp, ds] + (["--no-colon-suffix"] if case["no_colon"]
                             else [])
        r = sandbox.run_cli("link_mesh_fragments", args)
        if not r.ok:
            col.ev(1, 1, "links-failed")
            col.violation("C17/link-mesh-fragments/failed", case, "status 0",
                          r.brief())
            return
        want = {}
        for label, frags in case["table"]:
            # the file is named after the label NUMBER, however the CSV
            # spells it
            want[str(int(label)) + ("" if case["no_colon"] else ":0")] = frags
        got = {}
        for name in os.listdir(os.path.join(ds, "mesh")):
            if name in case["existing"]:
                continue
            with open(os.path.join(ds, "mesh", name), "rb") as f:
                raw = f.read()
            try:
                got[name] = json.loads(raw.decode("utf-8"))
            except Exception:
                got[name] = "not JSON: " + raw[:40].hex()
        ok = True
        if sorted(got) != sorted(want):
            ok = False
            col.violation("C17/link-mesh-fragments/file-set", case,
                          sorted(want), sorted(got))
        else:
            for k in want:
                if got[k] != {"fragments": want[k]}:
                    ok = False
                    col.violation("C17/link-mesh-fragments/content", case,
                                  {"fragments": want[k]}, got[k])
        col.ev(1, 1, "links-ok" if ok else "links-bad")
    finally:
        sandbox.rm(d)


def links_cases():
    tables = [
        [(7, ["a"])],
        [(0, [])],
        [(7, ["a", "b", "c"]), (2 ** 32, ["b"]), (0, [])],
        [(1, ["a"]), (2, ["a"]), (3, ["missing"])],
        [(10, ["x y", "b"]), (11, ["c"])],
        # 64-bit labels: neighbours that collapse when rounded to a double
        [(2 ** 53, ["a"]), (2 ** 53 + 1, ["b"]), (2 ** 64 - 1, ["c"]),
         (2 ** 63 + 1, ["a", "b"])],
        [(10 ** 15 + 1, ["a"]), (1, ["b"]), (1 << 40, ["c"])],
        # label cells that int() accepts but that are not canonical decimal
        [("007", ["a"]), (" 12", ["b"]), ("+3", ["a", "b"])],
    ]
    out = []
    for t in tables:
        for no_colon in (False, True):
            out.append({"kind": "links", "table": t, "no_colon": no_colon,
                        "existing": ["a", "b"]})
    return out


# ------------------------------------------------------------------ units
def units(tier):
    u = [{"kind": "writers"}, {"kind": "affine", "tier": tier},
         {"kind": "gifti"}, {"kind": "links"}]
    nb = len(reader_bases())
    for i in range(nb):
        u.append({"kind": "reader", "base": i, "tier": tier})
    u.append({"kind": "strings2"})
    if tier == "thorough":
        for first in range(256):
            u.append({"kind": "strings3", "first": first})
    for first in (0, 1, 2, 0x80, 0xff):
        u.append({"kind": "strings5", "first": first})
    return u


def space(tier):
    return {"writer_meshes": 25 * 4, "reader_bases": len(reader_bases()),
            "matrices": len(matrices(tier)) * 2 * 3 * 2,
            "gifti_cases": len(gifti_cases()),
            "links_cases": len(links_cases())}


def run_unit(u):
    col = Collector()
    k = u["kind"]
    if k == "writers":
        for V in (0, 1, 3, 4, 8):
            for M in (0, 1, 2, 4, 12):
                for attrs in ([], [1], [1, 3], [4, 1, 1]):
                    for layout in ("C", "F", "strided", "transposed"):
                        _eval_writer(col, V, M, attrs, layout)
                for layout in DTYPE_LAYOUTS:
                    _eval_writer(col, V, M, [], layout)
        col.sample({"kind": "writer", "V": 8, "M": 12, "attrs": [1, 3]})
    elif k == "reader":
        want = reader_bases()[u["base"]][2]
        # regenerate only this base's buffers
        cur = None
        for buf, origin in reader_buffers(u["tier"]):
            if origin == "base":
                cur = buf
            if cur == want:
                _eval_reader(col, buf, origin)
        col.sample({"kind": "reader", "hex": want.hex(), "origin": "base"})
    elif k == "strings2":
        for n in range(3):
            for t in itertools.product(range(256), repeat=n):
                _eval_reader(col, bytes(t), "string")
        col.sample({"kind": "reader", "hex": "0000", "origin": "string"})
    elif k == "strings3":
        for t in itertools.product(range(256), repeat=2):
            _eval_reader(col, bytes((u["first"],) + t), "string")
        col.sample({"kind": "reader", "hex": "%02x0000" % u["first"],
                    "origin": "string"})
    elif k == "strings5":
        for n in range(2, 7):
            for t in itertools.product((0, 1, 2, 0x80, 0xff), repeat=n):
                _eval_reader(col, bytes((u["first"],) + t), "string")
        col.sample({"kind": "reader", "hex": "%02x000000" % u["first"],
                    "origin": "string"})
    elif k == "affine":
        for meshname in ("tetra", "cube"):
            for name, m in matrices(u["tier"]):
                for trans in ((0, 0, 0), (10, -20, 5.5), (-0.01, 0, 1e3)):
                    for rows in (3, 4):
                        _eval_affine(col, meshname, name, m, trans, rows)
                    for inp in INPUT_KINDS[1:]:
                        _eval_affine(col, meshname, name, m, trans, 4, inp)
        col.sample({"kind": "affine", "mesh": "cube",
                    "matrix_kind": "shear-mirror"})
    elif k == "gifti":
        for case in gifti_cases():
            _eval_gifti(col, case)
        _eval_gifti_reuse(col)
        col.sample(gifti_cases()[9])
    elif k == "links":
        for case in links_cases():
            _eval_links(col, case)
        col.sample(links_cases()[4])
    return col.result()


def replay(case):
    col = Collector()
    k = case["kind"]
    if k == "writer":
        _eval_writer(col, case["V"], case["M"], case["attrs"],
                     case.get("layout", "C"))
    elif k == "reader":
        _eval_reader(col, bytes.fromhex(case["hex"]), case["origin"])
    elif k == "affine":
        full = np.array(case["matrix"], dtype=float)
        _eval_affine(col, case["mesh"], case["matrix_kind"], full[:3, :3],
                     tuple(full[:3, 3]), full.shape[0],
                     case.get("input", "float32"))
    elif k == "gifti":
        _eval_gifti(col, case)
    elif k == "gifti-reuse":
        _eval_gifti_reuse(col)
        return [r for r in col.records()
                if r["case"].get("transform_kind") == case["transform_kind"]
                and r["case"].get("call") == case["call"]]
    elif k == "links":
        _eval_links(col, case)
    return col.records()
