"""C10 - decoders never misbehave on malformed chunk data.

Deviation-bounded E-INPUT: start from valid buffers (built by harness-side
encoders, not by the package), apply 0 / 1 / 2 deviations (every truncation,
every position x byte alphabet, every header word x value alphabet, pairs in
thorough), plus ALL short byte strings; each decoder must return an array of
exactly the requested shape and dtype or raise InvalidFormatError. Mutated
compressed_segmentation buffers that are still spec-valid must decode to
what the specification says.
"""
import io
import itertools
import signal
import struct

import numpy as np

from mc.oracle import cseg_spec
from mc.runner import Collector

ID = "C10"
LEVEL = "exploration"
REQUIRED_CLASSES = ["decoded", "rejected", "decoded-valid"]
RULE = ("per codec configuration and base buffer: (0 deviations) the valid "
        "buffer and spec-valid variants the package's encoder never emits "
        "(wider bits, tables after values, shared tables, padding words, "
        "reversed channel order, unsorted tables) must decode correctly; (1 "
        "deviation) every truncation length, every byte position x byte "
        "alphabet (13 values quick; thorough: all 256 in the first 96 bytes, "
        "45 values beyond), every header word "
        "x {0,1,n-1,n,n+1,2^24-1,2^31,2^32-1} and every bits value, constant "
        "fills (0x00, 0x01, 0xff) of every length up to the valid one + 8, "
        "JPEG: well-formed images of 25 other container/pixel-mode pairs "
        "(PNG, TIFF, GIF, BMP, PPM, JPEG in L, 1, P, I;16, I, F, LA, RGB, "
        "RGBA, CMYK) x {same, swapped, one-row} dimensions; "
        "JPEG frame-header height x width from {0,1,2,255,256,13378,20000,"
        "65535} and component counts; (2 "
        "deviations, thorough) all pairs of header-word edits and of "
        "header-byte edits over {0,1,0x7f,0x80,0xff}; plus all byte strings "
        "of length <= 2 (full alphabet) and <= 6 (quick) / 8 (thorough) over "
        "{0,1,2,0x80,0xff}. One evaluation = one decode call; non-trivial = "
        "the buffer differs from the valid base.")
ASSUMPTIONS = [
    "'never hangs' is decided as: a decode is interrupted after 10 s of CPU "
    "time (ITIMER_PROF) and reported",
    "JPEG base buffers are written by Pillow directly; only shape/dtype or "
    "InvalidFormatError is demanded of mutated JPEG data",
    "validity of a mutated compressed_segmentation buffer is judged by "
    "mc/oracle/cseg_spec.py (DESIGN App. A.2)",
]
HOW_TO_READ = ("case: build the base buffer described by codec/config/base, "
               "apply 'edit' (trunc to len | set bytes [pos,val] | set "
               "little-endian words [wordpos,val] | replace by hex string), "
               "call get_encoder(...).decode(buf, (X,Y,Z))")

BYTE_ALPHA_Q = [0, 1, 2, 3, 4, 8, 16, 32, 0x40, 0x7f, 0x80, 0xfe, 0xff]
PAIR_ALPHA = [0, 1, 0x7f, 0x80, 0xff]
STR_ALPHA = [0, 1, 2, 0x80, 0xff]


class Hang(BaseException):
    pass


def _on_timer(signum, frame):
    raise Hang()


# ---- configurations --------------------------------------------------------
def cseg_configs(tier):
    if tier == "quick":
        return [("uint32", 1, (1, 2, 3), (2, 2, 2)),
                ("uint64", 2, (1, 2, 3), (8, 8, 8)),
                ("uint32", 2, (1, 2, 3), (2, 1, 4)),
                ("uint32", 1, (4, 1, 1), (1, 1, 2)),
                ("uint64", 1, (2, 3, 3), (2, 2, 2)),
                ("uint32", 3, (1, 1, 2), (1, 1, 1)),
                ("uint64", 1, (1, 1, 1), (8, 8, 8))]
    out = []
    for dt in ("uint32", "uint64"):
        for nch in (1, 2, 3):
            for block in ((1, 1, 1), (2, 2, 2), (2, 1, 4), (8, 8, 8)):
                for shape in ((1, 2, 3), (2, 3, 3), (1, 1, 1)):
                    if block == (1, 1, 1) and shape == (2, 3, 3) and nch > 1:
                        continue
                    out.append((dt, nch, shape, block))
    return out


def raw_configs(tier):
    return [("uint8", 1, (1, 2, 3)), ("uint16", 2, (2, 1, 2)),
            ("float32", 1, (1, 1, 2)), ("uint64", 3, (1, 1, 1))]


def jpeg_configs(tier):
    c = [(1, (2, 3, 4), "xy"), (3, (2, 3, 4), "xy"), (1, (3, 2, 5), "xz")]
    if tier == "thorough":
        c += [(3, (3, 2, 5), "xz"), (1, (1, 1, 1), "xy"),
              (3, (1, 8, 8), "xy")]
    return c


def cseg_base_arrays(dtype, nch, shape):
    n = shape[0] * shape[1] * shape[2]
    hi = 2 ** 32 - 1 if dtype == "uint32" else 2 ** 64 - 1
    bases = {
        "const": [[hi - c] * n for c in range(nch)],
        "two": [[(7 + c) if (i + c) % 2 else hi for i in range(n)]
                for c in range(nch)],
        "mod5": [[(i + c) % 5 + (hi // 2) for i in range(n)]
                 for c in range(nch)],
        "distinct": [[i * 3 + c for i in range(n)] for c in range(nch)],
    }
    return bases


def build_base(case):
    """-> (encoder factory args, buf, (X,Y,Z), expected array or None)"""
    codec = case["codec"]
    if codec == "cseg":
        dt, nch = case["dtype"], case["channels"]
        shape, block = tuple(case["shape_zyx"]), tuple(case["block"])
        chans = cseg_base_arrays(dt, nch, shape)[case["base"]]
        item = 4 if dt == "uint32" else 8
        buf = cseg_spec.encode_variant(chans, shape, block, item,
                                       case.get("variant", "plain"))
        exp = np.array(chans, dtype=dt).reshape((nch,) + shape)
        return buf, exp
    if codec == "raw":
        dt, nch, shape = case["dtype"], case["channels"], tuple(
            case["shape_zyx"])
        n = nch * shape[0] * shape[1] * shape[2]
        exp = (np.arange(n) * 37 % 251).astype(dt).reshape((nch,) + shape)
        return exp.astype(np.dtype(dt).newbyteorder("<")).tobytes(), exp
    if codec == "jpeg":
        import PIL.Image
        nch, shape, plane = (case["channels"], tuple(case["shape_zyx"]),
                             case["plane"])
        Z, Y, X = shape
        n = nch * Z * Y * X
        arr = (np.arange(n) * 29 % 256).astype("uint8").reshape((nch,)
                                                                + shape)
        if plane == "xy":
            flat = arr.reshape(nch, Z * Y, X)
        else:
            flat = arr.reshape(nch, Z, Y * X)
        img = PIL.Image.fromarray(flat[0] if nch == 1
                                  else np.moveaxis(flat, 0, -1))
        b = io.BytesIO()
        if case["base"] == "progressive":
            img.save(b, format="jpeg", quality=90, progressive=True,
                     optimize=True, subsampling=0)
        else:
            img.save(b, format="jpeg", quality=90, subsampling=0)
        return b.getvalue(), None
    raise ValueError(codec)


def make_encoder(case):
    from neuroglancer_scripts import chunk_encoding as ce
    codec = case["codec"]
    if codec == "cseg":
        return ce.CompressedSegmentationEncoder(
            case["dtype"], case["channels"], list(case["block"]))
    if codec == "raw":
        return ce.RawChunkEncoder(case["dtype"], case["channels"])
    return ce.JpegChunkEncoder("uint8", case["channels"],
                               jpeg_plane=case["plane"])


def apply_edit(buf, edit):
    k = edit["kind"]
    if k == "none":
        return buf
    if k == "trunc":
        return buf[:edit["len"]]
    if k == "extend":
        return buf + bytes(edit["extra"])
    if k == "bytes":
        b = bytearray(buf)
        for pos, val in edit["edits"]:
            b[pos] = val
        return bytes(b)
    if k == "words":
        b = bytearray(buf)
        for wpos, val in edit["edits"]:
            struct.pack_into("<I", b, 4 * wpos, val)
        return bytes(b)
    if k == "string":
        return bytes.fromhex(edit["hex"])
    if k == "image":
        return foreign_image(buf, edit)
    raise ValueError(k)


FOREIGN = [("PNG", "L"), ("PNG", "I;16"), ("PNG", "1"), ("PNG", "RGB"),
           ("PNG", "RGBA"), ("PNG", "P"), ("PNG", "LA"), ("PNG", "I"),
           ("TIFF", "L"), ("TIFF", "F"), ("TIFF", "I"), ("TIFF", "I;16"),
           ("TIFF", "RGB"), ("TIFF", "1"), ("TIFF", "CMYK"), ("GIF", "P"),
           ("GIF", "L"), ("BMP", "L"), ("BMP", "RGB"), ("BMP", "1"),
           ("PPM", "L"), ("PPM", "RGB"), ("JPEG", "L"), ("JPEG", "RGB"),
           ("JPEG", "CMYK")]


def foreign_image(base_buf, edit):
    """a well-formed image file in another container / pixel mode with the
    same pixel dimensions as the base JPEG (or swapped / one row)"""
    import PIL.Image
    w, h = PIL.Image.open(io.BytesIO(base_buf)).size
    if edit["dims"] == "swapped":
        w, h = h, w
    elif edit["dims"] == "row":
        w, h = w * h, 1
    mode = edit["mode"]
    ramp = (np.arange(w * h) * 29 % 251).reshape(h, w)
    if mode in ("L", "P"):
        img = PIL.Image.fromarray(ramp.astype("uint8"))
        if mode == "P":
            img = img.convert("P")
    elif mode == "1":
        img = PIL.Image.fromarray((ramp % 2 * 255).astype("uint8")
                                  ).convert("1")
    elif mode == "I;16":
        img = PIL.Image.fromarray((ramp * 257).astype("uint16"))
    elif mode == "I":
        img = PIL.Image.fromarray((ramp * 70001).astype("int32"))
    elif mode == "F":
        img = PIL.Image.fromarray((ramp * 0.37).astype("float32"))
    else:
        nb = {"RGB": 3, "RGBA": 4, "LA": 2, "CMYK": 4}[mode]
        a = np.stack([(ramp + 40 * k) % 256 for k in range(nb)],
                     axis=-1).astype("uint8")
        img = PIL.Image.fromarray(a, mode)
    b = io.BytesIO()
    img.save(b, format=edit["format"])
    return b.getvalue()


def judge(col, case, enc, buf, base_buf, exp):
    """one decode call + oracle"""
    from neuroglancer_scripts.chunk_encoding import InvalidFormatError
    codec = case["codec"]
    Z, Y, X = case["shape_zyx"]
    nch = case["channels"]
    want_shape = (nch, Z, Y, X)
    want_dtype = np.dtype(case.get("dtype", "uint8"))
    mutated = 1 if buf != base_buf else 0
    signal.setitimer(signal.ITIMER_PROF, 10.0)
    try:
        try:
            res = enc.decode(buf, (X, Y, Z))
            err = None
        except InvalidFormatError as exc:
            res, err = None, exc
        except Hang:
            col.ev(1, mutated, "hang")
            col.violation("C10/%s/hang" % codec, case, "returns",
                          "> 10 s CPU in one decode")
            return
        except Exception as exc:
            signal.setitimer(signal.ITIMER_PROF, 0)
            col.ev(1, mutated, "other-exception")
            col.violation("C10/%s/leaked-exception/%s"
                          % (codec, type(exc).__name__), case,
                          "array or InvalidFormatError", repr(exc)[:300])
            return
    finally:
        signal.setitimer(signal.ITIMER_PROF, 0)
    # what does the specification say about this buffer?
    valid_exp = None
    may_reject = False
    if codec == "cseg":
        item = want_dtype.itemsize
        try:
            dec = cseg_spec.decode(buf, nch, (Z, Y, X), tuple(case["block"]),
                                   item, strict=True)
            valid_exp = np.array(dec, dtype=want_dtype).reshape(want_shape)
            try:
                cseg_spec.decode(buf, nch, (Z, Y, X), tuple(case["block"]),
                                 item, strict=True, check_padding=True)
            except cseg_spec.SpecError:
                # only padding voxels (content unspecified by the format)
                # reference entries outside the file: rejecting is accepted,
                # decoding must still give the specified values
                may_reject = True
        except cseg_spec.SpecError:
            valid_exp = None
    elif codec == "raw":
        if len(buf) == int(np.prod(want_shape)) * want_dtype.itemsize:
            valid_exp = np.frombuffer(
                buf, dtype=want_dtype.newbyteorder("<")).reshape(want_shape)
    elif not mutated:
        valid_exp = "jpeg-valid"
    if err is not None:
        if valid_exp is not None and may_reject:
            col.ev(1, mutated, "rejected/padding-voxels-out-of-file")
        elif valid_exp is not None:
            col.ev(1, mutated, "rejected-valid")
            col.violation("C10/%s/valid-data-rejected" % codec, case,
                          "decoded array", repr(err)[:300])
        else:
            col.ev(1, mutated, "rejected")
        return
    if (not isinstance(res, np.ndarray) or tuple(res.shape) != want_shape
            or res.dtype.newbyteorder("=") != want_dtype.newbyteorder("=")):
        col.ev(1, mutated, "wrong-shape")
        col.violation("C10/%s/wrong-shape-or-dtype" % codec, case,
                      "%s %r" % (want_dtype, want_shape),
                      "%s %r" % (getattr(res, "dtype", type(res)),
                                 getattr(res, "shape", None)))
        return
    if isinstance(valid_exp, np.ndarray):
        same = (res.tobytes() == valid_exp.astype(res.dtype).tobytes())
        if not same:
            col.ev(1, mutated, "decoded-valid-wrong")
            col.violation("C10/%s/valid-data-decoded-wrongly" % codec, case,
                          "what the specification says", "different values")
            return
        col.ev(1, mutated, "decoded-valid")
    else:
        col.ev(1, mutated, "decoded")


# ---- deviation menus -------------------------------------------------------
def header_words(case, buf):
    """word positions of the header region of a cseg buffer (channel table +
    block headers of every channel, following the base buffer's offsets)"""
    nch = case["channels"]
    gx, gy, gz = cseg_spec.grid(tuple(case["shape_zyx"]),
                                tuple(case["block"]))
    words = list(range(nch))
    for c in range(nch):
        off = struct.unpack_from("<I", buf, 4 * c)[0]
        words += list(range(off, off + 2 * gx * gy * gz))
    return sorted(set(w for w in words if 4 * w + 4 <= len(buf)))


def word_values(buf, w):
    n = len(buf) // 4
    orig = struct.unpack_from("<I", buf, 4 * w)[0]
    vals = {0, 1, n - 1, n, n + 1, 2 ** 24 - 1, 2 ** 31, 2 ** 32 - 1,
            orig + 1, max(0, orig - 1)}
    for bits in list(range(0, 34)) + [64, 255]:
        vals.add((orig & 0xFFFFFF) | (bits << 24))
    for b in range(32):         # every single-bit flip of the word
        vals.add(orig ^ (1 << b))
    vals.discard(orig)
    return sorted(v for v in vals if 0 <= v < 2 ** 32)


def edits_for(case, buf, tier):
    """all deviations of bound 1 (and 2 in thorough) for one base buffer"""
    codec = case["codec"]
    alpha = BYTE_ALPHA_Q if tier == "quick" else list(range(256))
    wide = sorted(set(BYTE_ALPHA_Q) | set(range(0, 256, 16))
                  | set(range(15, 256, 16)))
    for n in range(len(buf)):
        yield {"kind": "trunc", "len": n}
    for extra in ([0], [0, 0, 0, 0], [255] * 8):
        yield {"kind": "extend", "extra": extra}
    step = 1
    if codec == "jpeg" and tier == "quick":
        step = 3        # quick: every third byte position of JPEG data
    for pos in range(0, len(buf), step):
        # thorough: all 256 values in the first 96 bytes (headers, tables),
        # a 45-value alphabet further in
        for v in (alpha if (tier == "quick" or pos < 96) else wide):
            if buf[pos] != v:
                yield {"kind": "bytes", "edits": [[pos, v]]}
        for v in ((buf[pos] + 1) % 256, (buf[pos] - 1) % 256,
                  buf[pos] ^ 0x80):
            if v not in alpha:
                yield {"kind": "bytes", "edits": [[pos, v]]}
    # constant fills of every length around the valid one (a buffer of
    # zeros is a plausible "sparse file" corruption)
    for fill in (0, 0xff, 1):
        for n in range(0, len(buf) + 9):
            yield {"kind": "string", "hex": bytes([fill] * n).hex()}
    if codec == "jpeg":
        # well-formed image files of other containers and pixel modes
        for fmt, mode in FOREIGN:
            for dims in ("same", "swapped", "row"):
                yield {"kind": "image", "format": fmt, "mode": mode,
                       "dims": dims}
        # targeted edits of the frame header (SOF0/SOF2): height and width
        i = 2
        sof = None
        while i + 4 <= len(buf) and buf[i] == 0xFF:
            marker = buf[i + 1]
            seglen = (buf[i + 2] << 8) | buf[i + 3]
            if marker in (0xC0, 0xC1, 0xC2):
                sof = i
                break
            i += 2 + seglen
        if sof is not None:
            vals = [0, 1, 2, 255, 256, 13378, 20000, 65535]
            for h in vals:
                for w in vals:
                    yield {"kind": "bytes", "edits": [
                        [sof + 5, h >> 8], [sof + 6, h & 255],
                        [sof + 7, w >> 8], [sof + 8, w & 255]]}
            for ncomp in (0, 1, 2, 3, 4, 255):
                yield {"kind": "bytes", "edits": [[sof + 9, ncomp]]}
    if codec == "cseg":
        hw = header_words(case, buf)
        for w in hw:
            for v in word_values(buf, w):
                yield {"kind": "words", "edits": [[w, v]]}
        if tier == "thorough":
            small = [0, 1, len(buf) // 4, 2 ** 24 - 1, 2 ** 32 - 1]
            for w1, w2 in itertools.combinations(hw[:12], 2):
                for v1 in small:
                    for v2 in small:
                        yield {"kind": "words", "edits": [[w1, v1],
                                                          [w2, v2]]}
            hb = [4 * w + k for w in hw[:6] for k in range(4)]
            for p1, p2 in itertools.combinations(hb, 2):
                for v1 in PAIR_ALPHA:
                    for v2 in PAIR_ALPHA:
                        yield {"kind": "bytes", "edits": [[p1, v1],
                                                          [p2, v2]]}


def base_cases(tier):
    out = []
    for dt, nch, shape, block in cseg_configs(tier):
        for base in ("const", "two", "mod5", "distinct"):
            variants = ["plain"]
            if base in ("two", "mod5"):
                variants = list(cseg_spec.VARIANTS)
            for v in variants:
                out.append({"codec": "cseg", "dtype": dt, "channels": nch,
                            "shape_zyx": list(shape), "block": list(block),
                            "base": base, "variant": v})
    for dt, nch, shape in raw_configs(tier):
        out.append({"codec": "raw", "dtype": dt, "channels": nch,
                    "shape_zyx": list(shape), "base": "ramp"})
    for nch, shape, plane in jpeg_configs(tier):
        for base in ("baseline", "progressive"):
            out.append({"codec": "jpeg", "channels": nch,
                        "shape_zyx": list(shape), "plane": plane,
                        "base": base})
    return out


def string_cases(tier):
    """decoder configurations that are fed all short byte strings"""
    return [
        {"codec": "cseg", "dtype": "uint32", "channels": 1,
         "shape_zyx": [1, 1, 1], "block": [8, 8, 8]},
        {"codec": "cseg", "dtype": "uint64", "channels": 1,
         "shape_zyx": [1, 1, 2], "block": [1, 1, 1]},
        {"codec": "cseg", "dtype": "uint32", "channels": 2,
         "shape_zyx": [1, 1, 1], "block": [2, 2, 2]},
        {"codec": "raw", "dtype": "uint8", "channels": 1,
         "shape_zyx": [1, 1, 2]},
        {"codec": "raw", "dtype": "uint16", "channels": 1,
         "shape_zyx": [1, 1, 1]},
        {"codec": "jpeg", "channels": 1, "shape_zyx": [1, 1, 1],
         "plane": "xy"},
    ]


def units(tier):
    u = []
    for bc in base_cases(tier):
        # deviations are only enumerated on the "plain" layout and on two
        # variants; the other variants are 0-deviation (validity) cases
        deviate = (bc["codec"] != "cseg"
                   or bc["variant"] in ("plain", "shared-table")
                   or (tier == "thorough"
                       and bc["variant"] == "table-after-values"))
        u.append({"kind": "base", "case": bc, "deviate": deviate,
                  "tier": tier})
    maxlen = 6 if tier == "quick" else 8
    for sc in string_cases(tier):
        u.append({"kind": "strings2", "case": sc})
        for first in STR_ALPHA:
            u.append({"kind": "strings", "case": sc, "first": first,
                      "maxlen": maxlen})
    u.sort(key=lambda x: 0 if x["kind"] != "base" else 1)
    return u


def space(tier):
    return {"base_buffers": len(base_cases(tier)),
            "string_decoders": len(string_cases(tier)),
            "byte_alphabet": len(BYTE_ALPHA_Q) if tier == "quick" else 256}


def run_unit(u):
    signal.signal(signal.SIGPROF, _on_timer)
    col = Collector()
    case0 = u["case"]
    enc = make_encoder(case0)
    if u["kind"] == "base":
        buf, exp = build_base(case0)
        c = dict(case0)
        c["edit"] = {"kind": "none"}
        judge(col, c, enc, buf, buf, exp)
        if u["deviate"]:
            for e in edits_for(case0, buf, u["tier"]):
                c = dict(case0)
                c["edit"] = e
                judge(col, c, enc, apply_edit(buf, e), buf, exp)
        col.sample(c)
    elif u["kind"] == "strings2":
        for n in range(0, 3):
            for t in itertools.product(range(256), repeat=n):
                c = dict(case0)
                c["edit"] = {"kind": "string", "hex": bytes(t).hex()}
                judge(col, c, enc, bytes(t), None, None)
        col.sample(c)
    else:
        for n in range(2, u["maxlen"]):
            for t in itertools.product(STR_ALPHA, repeat=n):
                s = bytes((u["first"],) + t)
                c = dict(case0)
                c["edit"] = {"kind": "string", "hex": s.hex()}
                judge(col, c, enc, s, None, None)
        col.sample(c)
    return col.result()


def replay(case):
    signal.signal(signal.SIGPROF, _on_timer)
    col = Collector()
    enc = make_encoder(case)
    if case["edit"]["kind"] == "string" and "base" not in case:
        judge(col, case, enc, bytes.fromhex(case["edit"]["hex"]), None, None)
    else:
        buf, exp = build_base(case)
        judge(col, case, enc, apply_edit(buf, case["edit"]), buf, exp)
    return col.records()
