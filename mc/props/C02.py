"""C02 - compressed_segmentation output conforms to the Neuroglancer format.

E-INPUT: ALL label arrays over a small alphabet for every shape with <= 8
voxels x block sizes (cubic, non-cubic, larger than the chunk, non-dividing)
x uint32/uint64 x 1-2 channels; a bit-width ladder (1..65537 labels per
block); ramp-filled larger shapes. Oracle: a decoder/validator written from
the format text (mc/oracle/cseg_spec.py) and the package's own decoder.
"""
import itertools

import numpy as np

from mc.oracle import cseg_spec
from mc.runner import Collector

ID = "C02"
LEVEL = "exploration"
REQUIRED_CLASSES = ["ok"]
RULE = ("(a) every label assignment over a 2-letter (quick) / 3-letter "
        "(thorough) alphabet incl. 2^32-1, 2^53+1, 2^64-1 for every (Z,Y,X) "
        "with edges in {1,2,3,4,8} and <= 8 voxels, as 1- and 2-channel "
        "chunks, x 12 (quick) / 20 (thorough) block sizes (cubic, non-cubic, "
        "larger than the chunk, non-dividing) x uint32/uint64; (b) bit-width "
        "ladder: blocks with exactly k distinct labels, k in {1,2,3,4,5,16,"
        "17,256,257,65536,65537}, cubic and non-cubic, 1 and 3 channels, "
        "repeated tables and tables differing only above bit 32; (c) shapes "
        "{1..5}^3, (9,5,3), (16,16,16) filled with i mod m; (d) four chunks of "
        "all-distinct labels whose encoding exceeds 16 MiB, reaches past word "
        "offset 2^24 with its values, or would need a lookup table past 2^24 "
        "(must be refused), checked with a vectorised spec decoder. Input arrays are handed over in seven "
        "forms (C, Fortran, the moveaxis view volume conversion produces, "
        "strided, a narrower unsigned dtype, big-endian, a wider dtype - "
        "which may be refused -, uint64 labels >= 2^32 for a uint32 dataset - which must be refused), cycling through the enumeration. One evaluation = "
        "one encode + spec validation/decode + package decode; non-trivial "
        "= >= 2 blocks or >= 2 distinct labels.")
ASSUMPTIONS = [
    "DESIGN.md Appendix A.2 restates compressed_segmentation correctly",
    "minimal bit widths and table sharing are not demanded (the format does "
    "not demand them)",
]
HOW_TO_READ = ("case: CompressedSegmentationEncoder(dtype, C, block).encode("
               "array of shape (C,)+shape_zyx filled from 'values' or by the "
               "named generator); block is (bx,by,bz)")

EDGES = (1, 2, 3, 4, 8)
BLOCKS_Q = [(8, 8, 8), (1, 1, 1), (2, 2, 2), (3, 3, 3), (4, 4, 4), (2, 2, 1),
            (1, 2, 2), (4, 2, 4), (1, 8, 1), (2, 3, 2), (2, 1, 4), (8, 4, 2)]
BLOCKS_T = BLOCKS_Q + [(1, 1, 2), (2, 1, 1), (1, 2, 1), (3, 1, 1), (1, 1, 3),
                       (4, 4, 1), (8, 8, 1), (2, 4, 8)]


def shapes():
    return sorted((s for s in itertools.product(EDGES, repeat=3)
                   if s[0] * s[1] * s[2] <= 8),
                  key=lambda s: (s[0] * s[1] * s[2], s))


def letters(dtype, tier):
    if dtype == "uint32":
        full = [1, 2 ** 32 - 1, 0]
    else:
        full = [2 ** 53 + 1, 2 ** 64 - 1, 0]
    return full[:2] if tier == "quick" else full


def _case(dtype, shape, block, chans, gen=None):
    c = {"dtype": dtype, "shape_zyx": list(shape), "block": list(block),
         "channels": len(chans),
         "cubic_block": len(set(block)) == 1}
    if gen is not None:
        c["generator"] = gen
    else:
        c["values"] = [list(map(str, ch)) for ch in chans]
    return c


LAYOUTS = ("C", "F", "xyzc-view", "strided", "narrow-dtype", "bigendian",
           "wider-dtype", "too-wide-values", "via-get_encoder")
_ENCODERS = {}


def _lay(arr, layout):
    """the same (C,Z,Y,X) array in another memory layout"""
    if layout == "F":
        return np.asfortranarray(arr)
    if layout == "xyzc-view":
        # what volume_to_precomputed hands over: a moveaxis view of an
        # array stored as [x, y, z, c]
        base = np.ascontiguousarray(np.moveaxis(arr, (0, 1, 2, 3),
                                                (3, 2, 1, 0)))
        return np.moveaxis(base, (0, 1, 2, 3), (3, 2, 1, 0))
    if layout == "strided":
        big = np.zeros(arr.shape[:3] + (2 * arr.shape[3],), dtype=arr.dtype)
        big[..., ::2] = arr
        return big[..., ::2]
    if layout == "narrow-dtype":
        # labels handed over in a narrower unsigned type than the dataset's
        # (what a library user holding uint8/uint16/uint32 labels does)
        top = int(arr.max()) if arr.size else 0
        for t in ("uint8", "uint16", "uint32"):
            if np.dtype(t).itemsize < arr.dtype.itemsize and \
                    top <= np.iinfo(t).max:
                return arr.astype(t)
        return arr
    if layout == "bigendian":
        return arr.astype(arr.dtype.newbyteorder(">"))
    if layout == "wider-dtype":
        # uint64 array for a uint32 dataset: refused, or encoded correctly
        return arr.astype("uint64")
    if layout == "too-wide-values":
        # uint64 labels that do not fit a uint32 dataset: must be refused
        if arr.dtype.itemsize == 4:
            return arr.astype("uint64") + np.uint64(2 ** 32)
        return arr
    return arr


def _encoder_via_info(dtype, nch, block):
    """the encoder the dataset I/O layer and every script use: built by
    get_encoder() from an info whose block size is (x, y, z)"""
    from neuroglancer_scripts import chunk_encoding
    scale = {"key": "s", "size": [64, 64, 64], "chunk_sizes": [[64, 64, 64]],
             "resolution": [1, 1, 1], "voxel_offset": [0, 0, 0],
             "encoding": "compressed_segmentation",
             "compressed_segmentation_block_size": list(block)}
    info = {"type": "segmentation", "data_type": dtype, "num_channels": nch,
            "scales": [scale]}
    return chunk_encoding.get_encoder(info, scale)


def _evaluate(col, dtype, shape, block, chans, gen=None, layout="C"):
    from neuroglancer_scripts.chunk_encoding import (
        CompressedSegmentationEncoder,
    )
    case = _case(dtype, shape, block, chans, gen)
    kind = "cubic-block" if case["cubic_block"] else "non-cubic-block"
    Z, Y, X = shape
    nch = len(chans)
    itemsize = 4 if dtype == "uint32" else 8
    ref = np.array(chans, dtype=dtype).reshape((nch, Z, Y, X))
    arr = _lay(ref, layout)
    if layout != "C":
        case["layout"] = layout
    gx, gy, gz = cseg_spec.grid(shape, block)
    nontriv = 1 if (gx * gy * gz > 1 or
                    any(len(set(ch)) > 1 for ch in chans)) else 0
    try:
        # one encoder object serves many chunks (as in a conversion run):
        # results must not depend on what it encoded before
        via_info = layout == "via-get_encoder"
        key = (dtype, nch, tuple(block), via_info)
        enc = _ENCODERS.get(key)
        if enc is None:
            if len(_ENCODERS) > 64:
                _ENCODERS.clear()
            if via_info:
                enc = _ENCODERS[key] = _encoder_via_info(dtype, nch, block)
            else:
                enc = _ENCODERS[key] = CompressedSegmentationEncoder(
                    dtype, nch, list(block))
        buf = enc.encode(arr)
        if layout == "too-wide-values" and arr.dtype != ref.dtype:
            col.ev(1, nontriv, "bad/accepted-too-wide-labels")
            col.violation("C02/encode/accepted-labels-that-do-not-fit-the-"
                          "data-type", case, "refusal (labels >= 2^32 for a "
                          "uint32 dataset)", "encoded without complaint")
            return
    except Exception as exc:
        if layout in ("wider-dtype", "too-wide-values") \
                and arr.dtype != ref.dtype:
            col.ev(1, nontriv, "refused-wider-input")
            return
        col.ev(1, nontriv, "encode-exception")
        col.violation("C02/encode/exception/%s/%s" % (type(exc).__name__,
                                                      kind),
                      case, "encoded chunk", repr(exc)[:300])
        return
    ok = True
    try:
        dec = cseg_spec.decode(bytes(buf), nch, shape, block, itemsize)
        if dec != [list(ch) for ch in chans]:
            ok = False
            col.violation("C02/spec-decoder/wrong-labels/" + kind, case,
                          "the original labels",
                          "first differing channel %d" % next(
                              i for i in range(nch)
                              if dec[i] != list(chans[i])))
    except cseg_spec.SpecError as exc:
        ok = False
        col.violation("C02/format/%s/%s" % (exc.tag, kind), case,
                      "well-formed file", str(exc)[:300])
    try:
        back = enc.decode(bytes(buf), (X, Y, Z))
    except Exception as exc:
        ok = False
        col.violation("C02/package-decoder/exception/%s/%s"
                      % (type(exc).__name__, kind), case, "the array",
                      repr(exc)[:300])
    else:
        if tuple(back.shape) != ref.shape or back.dtype.newbyteorder(
                "=") != ref.dtype:
            ok = False
            col.violation("C02/package-decoder/shape-or-dtype/" + kind, case,
                          "%s %r" % (ref.dtype, ref.shape),
                          "%s %r" % (back.dtype, tuple(back.shape)))
        elif not np.array_equal(back, ref):
            ok = False
            col.violation("C02/package-decoder/wrong-labels/" + kind, case,
                          "the original labels", "%d voxels differ"
                          % int(np.count_nonzero(back != ref)))
    col.ev(1, nontriv, ("ok/" if ok else "bad/") + kind)


# ---- (b) bit-width ladder --------------------------------------------------
LADDER = [1, 2, 3, 4, 5, 16, 17, 256, 257, 65536, 65537]


def _labels(k, dtype):
    """k distinct labels spread over the type's range"""
    hi = 2 ** 32 - 1 if dtype == "uint32" else 2 ** 64 - 1
    out = []
    for i in range(k):
        if i % 3 == 0:
            out.append(i)
        elif i % 3 == 1:
            out.append(hi - i)
        else:
            out.append((hi // 3) + i * 65537 % 1000003)
    assert len(set(out)) == k
    return out


_BYTE_CASES = {}


def _byte_cases(dtype):
    """two-block chunks built so that the little-endian bytes of the second
    block's lookup table occur inside the first block's table at a position
    that is NOT a multiple of 4 (table offsets count 32-bit words): every
    sorted pair / triple of a small alphabet as first table x every unaligned
    position x {one, two} entries taken from there x both block orders"""
    if dtype in _BYTE_CASES:
        return _BYTE_CASES[dtype]
    elem = 4 if dtype == "uint32" else 8
    alpha = ([0, 1, 5, 9, 12, 256, 65536, 0x01000000, 0x01020304]
             if elem == 4 else
             [0, 1, 5, 9, 12, 256, 2 ** 32, 2 ** 40, 0x0102030405060708])
    out = []
    for k in (2, 3):
        for tab in itertools.combinations(alpha, k):
            tb = b"".join(v.to_bytes(elem, "little") for v in tab)
            for pos in range(1, len(tb) - elem + 1):
                if pos % 4 == 0:
                    continue
                one = int.from_bytes(tb[pos:pos + elem], "little")
                seconds = [[one]]
                if pos + 2 * elem <= len(tb):
                    two = int.from_bytes(tb[pos + elem:pos + 2 * elem],
                                         "little")
                    if one < two:
                        seconds.append([one, two])
                for sec in seconds:
                    for order in ("ab", "ba"):
                        out.append((list(tab), sec, order))
    _BYTE_CASES[dtype] = out
    return out


def _gen_values(gen, dtype):
    """(shape_zyx, block, chans) for a named generator"""
    kind = gen[0]
    if kind == "bytes":
        tab, sec, order = _byte_cases(dtype)[gen[1]]
        vals = []
        for i in range(16):
            x = i % 4
            j = (i // 4) * 2 + x % 2
            first = (x < 2) == (order == "ab")
            src = tab if first else sec
            vals.append(src[j % len(src)])
        return (2, 2, 4), (2, 2, 2), [vals]
    if kind == "ladder":
        _, k, variant, nch = gen
        if k > 512:
            shape, block = (41, 41, 41), (41, 41, 41)
        elif variant == "cubic":
            shape, block = (8, 8, 8), (8, 8, 8)
        elif variant == "non-cubic":
            shape, block = (4, 8, 16), (16, 8, 4)
        else:   # two-blocks: the same k labels in two blocks of a chunk
            shape, block = (8, 8, 16), (8, 8, 8)
        n = shape[0] * shape[1] * shape[2]
        labs = _labels(k, dtype)
        chans = []
        for c in range(nch):
            if variant == "two-blocks":
                # each 8-voxel x-run alternates between the two blocks
                vol = [labs[((i // 16) * 8 + i % 8 + c) % k]
                       for i in range(n)]
            else:
                vol = [labs[(i * 7 + c) % k] if i >= k else labs[i]
                       for i in range(n)]
            chans.append(vol)
        return shape, block, chans
    if kind == "high-bits":
        # two blocks whose tables differ only above bit 32
        shape, block = (2, 2, 4), (2, 2, 2)
        chans = [[(1 + (i % 2)) + ((2 ** 32) if (i % 4) >= 2 else 0)
                  for i in range(16)]]
        return shape, block, chans
    if kind == "mod":
        _, shape, block, m, nch = gen
        n = shape[0] * shape[1] * shape[2]
        hi = 2 ** 32 - 1 if dtype == "uint32" else 2 ** 64 - 1
        chans = [[((i + 3 * c) % m) * (hi // max(1, m - 1) if m > 1 else 1)
                  for i in range(n)] for c in range(nch)]
        return tuple(shape), tuple(block), chans
    raise ValueError(gen)


def _gens(tier):
    g = []
    for k in LADDER:
        for variant in ("cubic", "non-cubic", "two-blocks"):
            if k > 512 and variant != "cubic":
                continue
            for nch in (1, 3):
                if k > 512 and nch == 3:
                    continue
                g.append(["ladder", k, variant, nch])
    g.append(["high-bits"])
    nb = max(len(_byte_cases("uint32")), len(_byte_cases("uint64")))
    for n in range(0, nb, 3 if tier == "quick" else 1):
        g.append(["bytes", n])
    mod_shapes = [list(s) for s in itertools.product(range(1, 6), repeat=3)]
    mod_shapes += [[9, 5, 3], [3, 5, 9], [16, 16, 16]]
    blocks = [[8, 8, 8], [2, 2, 2], [3, 2, 1], [2, 4, 3]]
    for s in mod_shapes:
        for b in blocks:
            for m in (1, 2, 7, 300):
                if tier == "quick" and not (
                        m in (2, 7) and (max(s) >= 4 or s == [1, 1, 1])):
                    continue
                g.append(["mod", s, b, m, 2 if m == 7 else 1])
    return g


def units(tier):
    u = []
    blocks = BLOCKS_Q if tier == "quick" else BLOCKS_T
    for shape in shapes():
        for dtype in ("uint32", "uint64"):
            n = shape[0] * shape[1] * shape[2]
            if n == 8 and tier == "thorough":
                for b in blocks:
                    u.append({"kind": "all", "shape": list(shape),
                              "dtype": dtype, "blocks": [list(b)],
                              "tier": tier})
            else:
                u.append({"kind": "all", "shape": list(shape),
                          "dtype": dtype,
                          "blocks": [list(b) for b in blocks], "tier": tier})
    gens = _gens(tier)
    big = [g for g in gens if g[0] == "ladder" and g[1] > 512]
    rest = [g for g in gens if g not in big]
    for g in big:
        for dtype in ("uint32", "uint64"):
            u.append({"kind": "gen", "gens": [g], "dtype": dtype})
    for i in range(0, len(rest), 40):
        for dtype in ("uint32", "uint64"):
            u.append({"kind": "gen", "gens": rest[i:i + 40], "dtype": dtype})
    for k in range(len(BIG_CASES)):
        u.append({"kind": "big", "index": k})
    return u


# chunks whose encoding crosses the format's 2^24-word (64 MiB) lookup-table
# offset limit or the 16 MiB mark: (shape zyx, block, dtype, must_refuse)
BIG_CASES = [
    ((128, 128, 128), (64, 64, 64), "uint64", False),    # > 16 MiB/channel
    ((64, 64, 1408), (64, 64, 64), "uint64", False),     # values past 2^24
    ((64, 64, 1472), (64, 64, 64), "uint64", True),      # table past 2^24
    ((96, 96, 96), (32, 32, 32), "uint32", False),
]


def _eval_big(col, shape, block, dtype, must_refuse):
    """all-distinct labels (every block needs a full 32-bit table, nothing
    can be shared): the encoding is as large as the format allows"""
    from neuroglancer_scripts.chunk_encoding import (
        CompressedSegmentationEncoder,
    )
    Z, Y, X = shape
    case = {"kind": "big", "dtype": dtype, "shape_zyx": list(shape),
            "block": list(block), "generator": "all-distinct",
            "cubic_block": True}
    n = Z * Y * X
    hi = 2 ** 32 - 1 if dtype == "uint32" else 2 ** 64 - 1
    ref = (np.arange(n, dtype=np.uint64) * np.uint64(2654435761)
           % np.uint64(hi)).astype(dtype)
    # distinct within every block is what matters; make them distinct overall
    ref = (np.argsort(np.argsort(ref, kind="stable"), kind="stable")
           .astype(dtype) * np.dtype(dtype).type(3)
           + np.dtype(dtype).type(hi // 2)).reshape(1, Z, Y, X)
    enc = CompressedSegmentationEncoder(dtype, 1, list(block))
    try:
        buf = enc.encode(ref)
    except Exception as exc:
        if must_refuse:
            col.ev(1, 1, "ok/refused-beyond-format-limit")
        else:
            col.ev(1, 1, "encode-exception")
            col.violation("C02/encode/exception/%s/big" % type(exc).__name__,
                          case, "encoded chunk", repr(exc)[:300])
        return
    ok = True
    item = 4 if dtype == "uint32" else 8
    try:
        dec = cseg_spec.decode_np(bytes(buf), 1, shape, block, item)
        if not np.array_equal(dec, ref):
            ok = False
            col.violation("C02/spec-decoder/wrong-labels/big", case,
                          "the original labels", "%d voxels differ" % int(
                              np.count_nonzero(dec != ref)))
    except cseg_spec.SpecError as exc:
        ok = False
        col.violation("C02/format/%s/big" % exc.tag, case,
                      "well-formed file (or a refusal: a lookup table "
                      "beyond word offset 2^24 cannot be addressed)"
                      if must_refuse else "well-formed file", str(exc)[:300])
    try:
        back = enc.decode(bytes(buf), (X, Y, Z))
        if not np.array_equal(back, ref):
            ok = False
            col.violation("C02/package-decoder/wrong-labels/big", case,
                          "the original labels", "%d voxels differ" % int(
                              np.count_nonzero(back != ref)))
    except Exception as exc:
        ok = False
        col.violation("C02/package-decoder/exception/%s/big"
                      % type(exc).__name__, case, "the array",
                      repr(exc)[:300])
    col.ev(1, 1, "ok/big" if ok else "bad/big")


def space(tier):
    k = 2 if tier == "quick" else 3
    return {"shapes": len(shapes()),
            "arrays": sum(k ** (s[0] * s[1] * s[2]) for s in shapes()),
            "blocks": len(BLOCKS_Q if tier == "quick" else BLOCKS_T),
            "dtypes": 2, "generated_cases": len(_gens(tier)) * 2}


def run_unit(u):
    col = Collector()
    if u["kind"] == "big":
        shape, block, dtype, refuse = BIG_CASES[u["index"]]
        _eval_big(col, shape, block, dtype, refuse)
        col.sample({"kind": "big", "dtype": dtype, "shape_zyx": list(shape),
                    "block": list(block)})
        return col.result()
    if u["kind"] == "all":
        shape, dtype = tuple(u["shape"]), u["dtype"]
        n = shape[0] * shape[1] * shape[2]
        arrays = list(itertools.product(letters(dtype, u["tier"]), repeat=n))
        for block in u["blocks"]:
            block = tuple(block)
            for i, a in enumerate(arrays):
                b = arrays[(i + 1) % len(arrays)]
                _evaluate(col, dtype, shape, block, [list(a)],
                          layout=LAYOUTS[i % len(LAYOUTS)])
                _evaluate(col, dtype, shape, block, [list(a), list(b)],
                          layout=LAYOUTS[(i + 2) % len(LAYOUTS)])
        col.sample(_case(dtype, shape, tuple(u["blocks"][-1]),
                         [list(arrays[-1])]))
    else:
        for g in u["gens"]:
            if g[0] == "high-bits" and u["dtype"] == "uint32":
                continue
            if g[0] == "bytes" and g[1] >= len(_byte_cases(u["dtype"])):
                continue
            shape, block, chans = _gen_values(g, u["dtype"])
            for layout in (("C",) if g[0] == "bytes" else
                           LAYOUTS if g[0] != "ladder" or g[1] <= 512
                           else ("C", "xyzc-view")):
                _evaluate(col, u["dtype"], shape, block, chans, gen=g,
                          layout=layout)
        col.sample({"dtype": u["dtype"], "generator": u["gens"][0]})
    return col.result()


def replay(case):
    col = Collector()
    if case.get("kind") == "big":
        for shape, block, dtype, refuse in BIG_CASES:
            if list(shape) == case["shape_zyx"] and dtype == case["dtype"]:
                _eval_big(col, shape, block, dtype, refuse)
        return col.records()
    if "generator" in case:
        g = case["generator"]
        shape, block, chans = _gen_values(g, case["dtype"])
        _evaluate(col, case["dtype"], shape, block, chans, gen=g,
                  layout=case.get("layout", "C"))
    else:
        chans = [[int(v) for v in ch] for ch in case["values"]]
        _evaluate(col, case["dtype"], tuple(case["shape_zyx"]),
                  tuple(case["block"]), chans,
                  layout=case.get("layout", "C"))
    return col.records()
