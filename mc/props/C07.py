"""C07 - downscalers compute the documented block statistic exactly.

E-INPUT: ALL arrays over a per-dtype limit alphabet for every shape in
{1,2,3}^3 with <= N voxels x every factor triple the method supports x every
outside-value setting, compared voxel by voxel with an exact-rational
reference (mean rounded half-to-even with edge / constant completion,
majority with smallest-on-ties, stride = first voxel).
"""
import itertools
from fractions import Fraction

import numpy as np

from mc.oracle import exact_num as ex
from mc.runner import Collector

ID = "C07"
LEVEL = "exploration"
REQUIRED_CLASSES = ["average-ok", "majority-ok", "stride-ok", "reject-ok"]
RULE = ("all label assignments over the per-dtype limit alphabet {1, max, "
        "max-1, 0} (4 letters for shapes <= 4 voxels, first 2 (quick) / 3 "
        "(thorough) letters for larger shapes; float32: a small-dyadic and a "
        "huge-magnitude alphabet, never mixed) for every (Z,Y,X) in "
        "{1,2,3}^3 with <= 6 (quick) / 8 (thorough) voxels, as 2-channel chunks (each array "
        "appears in both channel positions) x factor triples {1,2}^3 "
        "(average) / {1,2,3}^3 (majority, stride) x outside value in {None, "
        "0, 255, 7.5}; ramp-filled shapes {1..5}^3; unsupported factor "
        "triples must raise NotImplementedError; one downscaler instance fed "
        "chunks of 3 different data types in every order; all ordered pairs of "
        "11 get_downscaler configurations (explicit or auto-selected method "
        "x info type x outside value) alive together, each then used; single calls on arrays beyond the "
        "exhaustive alphabets: blocks of 256-512 voxels with vote counts "
        "around 256, arrays of more than 32^3 and more than 2^20 voxels "
        "(numpy-integer references). One evaluation = one "
        "downscale call; non-trivial = some factor > 1 and the array is not "
        "constant.")
ASSUMPTIONS = [
    "float32 alphabets are chosen so that every partial sum of <= 8 letters "
    "is exact in float64; the only rounding a correct implementation "
    "performs is the final one",
    "the statement's 'exact mean' for 64-bit integers above 2^53 conflicts "
    "with the documented float64 work type: recorded as a known finding",
]
HOW_TO_READ = ("case: get_downscaler(method, options={outside_value})"
               ".downscale(chunk, factors) with chunk of the given dtype and "
               "shape (C,Z,Y,X) filled from 'values' (channel-major, C order); "
               "factors are (Dx,Dy,Dz)")

DTYPES = ["uint8", "uint16", "uint32", "uint64", "float32"]


def alphabets(dtype, tier, nvox):
    """letters per alphabet name. Shapes with <= 4 voxels always get the full
    4-letter alphabet; larger shapes get 2 letters (quick) / 3 (thorough)."""
    k = 4 if nvox <= 4 else (2 if tier == "quick" else 3)
    if dtype == "float32":
        small = [Fraction(1, 2), Fraction(2 ** 21 + 1, 2), Fraction(-5, 4),
                 Fraction(0)]
        huge = [Fraction(3 * 2 ** 100), Fraction(2 ** 127),
                Fraction(-3 * 2 ** 100), Fraction(0)]
        return {"f-small": small[:k], "f-huge": huge[:k]}
    hi = ex.INT_RANGE[dtype][1]
    full = [Fraction(1), Fraction(hi), Fraction(hi - 1), Fraction(0)]
    return {"limits": full[:k]}


ALPHA_NAMES = {"float32": ["f-small", "f-huge"]}


def shapes(tier):
    cap = 6 if tier == "quick" else 8
    return [s for s in itertools.product((1, 2, 3), repeat=3)
            if s[0] * s[1] * s[2] <= cap]


def outside_values(dtype, alpha):
    if alpha == "f-huge":
        # a small outside value next to 2^100-sized letters would mix the two
        # magnitudes, where exact mean and a float64 evaluation may
        # legitimately round differently (DESIGN section 5, C07)
        return [None, 0.0]
    return [None, 0.0, 255.0, 7.5]


def _block_indices(shape, factors, pad):
    """for each output voxel (z,y,x) the list of source flat indices of its
    block; with pad=True blocks overhang the border and the missing voxels
    are ('edge', flat index of the clamped voxel) markers"""
    Z, Y, X = shape
    fx, fy, fz = factors
    oz, oy, ox = -(-Z // fz), -(-Y // fy), -(-X // fx)
    out = []
    for z in range(oz):
        for y in range(oy):
            for x in range(ox):
                blk = []
                for dz in range(fz):
                    for dy in range(fy):
                        for dx in range(fx):
                            sz, sy, sx = z * fz + dz, y * fy + dy, x * fx + dx
                            inside = sz < Z and sy < Y and sx < X
                            if inside:
                                blk.append((False,
                                            (sz * Y + sy) * X + sx))
                            elif pad:
                                cz, cy, cx = (min(sz, Z - 1), min(sy, Y - 1),
                                              min(sx, X - 1))
                                blk.append((True, (cz * Y + cy) * X + cx))
                out.append(blk)
    return (oz, oy, ox), out


def reference(method, vals, shape, factors, outside, dtype):
    """expected flat output list for one channel (exact), and per-voxel
    (min, max) of the contributing values"""
    pad = method == "average"
    oshape, blocks = _block_indices(shape, factors, pad)
    exp, rng = [], []
    for blk in blocks:
        contrib = []
        for is_pad, i in blk:
            if is_pad and outside is not None:
                contrib.append(Fraction(outside))
            else:
                contrib.append(vals[i])
        if method == "average":
            exp.append(ex.convert(ex.block_mean(contrib), dtype))
        elif method == "majority":
            m = ex.majority(contrib)
            exp.append(int(m) if ex.is_int_type(dtype) else
                       np.float32(float(m)))
        else:
            v = contrib[0]
            exp.append(int(v) if ex.is_int_type(dtype) else
                       np.float32(float(v)))
        rng.append((min(contrib), max(contrib)))
    return oshape, exp, rng


def _case(method, dtype, shape, factors, outside, chans):
    return {"method": method, "dtype": dtype, "shape": list(shape),
            "factors": list(factors), "outside": outside,
            "values": [[str(v) for v in ch] for ch in chans],
            "above_2^53": any(abs(v) > 2 ** 53 for ch in chans for v in ch)}


def _downscaler(method, outside):
    from neuroglancer_scripts.downscaling import get_downscaler
    opts = {}
    if outside is not None:
        opts["outside_value"] = outside
    return get_downscaler(method, options=opts)


def _evaluate(col, method, dtype, shape, factors, outside, chans, ds=None):
    case = _case(method, dtype, shape, factors, outside, chans)
    chunk = np.stack([ex.make_array(ch, dtype).reshape(shape)
                      for ch in chans])
    before = chunk.tobytes()
    if ds is None:
        ds = _downscaler(method, outside)
    nontriv = 1 if (max(factors) > 1 and
                    any(len(set(ch)) > 1 for ch in chans)) else 0
    with np.errstate(all="ignore"):
        try:
            res = ds.downscale(chunk, tuple(factors))
        except Exception as exc:
            col.ev(1, nontriv, method + "-exception")
            col.violation("C07/%s/exception/%s" % (method,
                                                   type(exc).__name__),
                          case, "downscaled array", repr(exc)[:300])
            return
    ok = True
    if chunk.tobytes() != before:
        ok = False
        col.violation("C07/%s/input-modified" % method, case, "unchanged",
                      "input chunk modified")
    exps = [reference(method, ch, shape, factors, outside, dtype)
            for ch in chans]
    oshape = exps[0][0]
    if (tuple(res.shape) != (len(chans),) + tuple(oshape)
            or res.dtype != np.dtype(dtype)):
        col.ev(1, nontriv, method + "-bad-shape")
        col.violation("C07/%s/shape-or-dtype" % method, case,
                      "%s %r" % (dtype, (len(chans),) + tuple(oshape)),
                      "%s %r" % (res.dtype, tuple(res.shape)))
        return
    for c, (_, exp, rng) in enumerate(exps):
        flat = np.ascontiguousarray(res[c]).ravel()
        for i, want in enumerate(exp):
            got = flat[i]
            if ex.same(got, want, dtype):
                continue
            ok = False
            g = ex.to_fraction(got) if np.isfinite(got) else None
            lo, hi = rng[i]
            cc = dict(case)
            cc["channel"], cc["voxel"] = c, i
            big = max([abs(lo), abs(hi), 1])
            if (case["above_2^53"] and g is not None and ex.is_int_type(dtype)
                    and abs(g - Fraction(int(want))) * 2 ** 52 <= big):
                # off by at most one unit of float64 precision
                sig = "inexact-above-2^53"
            elif g is None or g < lo or g > hi:
                sig = "outside-min-max-of-block"
            else:
                sig = "wrong-value"
            col.violation("C07/%s/%s/%s" % (method, sig, dtype), cc,
                          repr(want), repr(got))
    col.ev(1, nontriv, method + ("-ok" if ok else "-wrong"))


BAD_FACTORS = {
    "average": [(3, 1, 1), (1, 3, 1), (2, 2, 3), (4, 2, 2), (0, 1, 1),
                (2, 2), (2, 2, 2, 2), (-2, 1, 1), (1.5, 1, 1)],
    "majority": [(0, 1, 1), (2, 2), (1, 1, 1, 1), (-1, 1, 1), (1.5, 1, 1),
                 (2.0, 2, 2)],
    "stride": [(0, 1, 1), (2, 2), (1, 1, 1, 1), (-1, 1, 1), (1.5, 1, 1),
               (2.0, 2, 2)],
}


def _eval_reject(col, method, factors):
    case = {"kind": "reject", "method": method, "factors": list(factors)}
    chunk = np.arange(2 * 27, dtype="uint8").reshape(2, 3, 3, 3)
    try:
        res = _downscaler(method, None).downscale(chunk, tuple(factors))
    except NotImplementedError:
        col.ev(1, 1, "reject-ok")
        return
    except Exception as exc:
        col.ev(1, 1, "reject-other-exception")
        col.violation("C07/%s/unsupported-factors/%s" % (
            method, type(exc).__name__), case, "NotImplementedError",
            repr(exc)[:200])
        return
    col.ev(1, 1, "reject-accepted")
    col.violation("C07/%s/unsupported-factors/accepted" % method, case,
                  "NotImplementedError", "array of shape %r" % (res.shape,))


def _factor_sets(method):
    if method == "average":
        return list(itertools.product((1, 2), repeat=3))
    return list(itertools.product((1, 2, 3), repeat=3))


def _run_reuse(col):
    """one downscaler INSTANCE fed chunks of different data types in every
    order (the conversion scripts create one instance per run; a library
    user may keep it): results must not depend on earlier calls"""
    seqs = list(itertools.permutations(DTYPES, 3))
    for method, outside in (("average", None), ("average", 0.0),
                            ("majority", None), ("stride", None)):
        for seq in seqs:
            ds = _downscaler(method, outside)
            for k, dtype in enumerate(seq):
                hi = ex.INT_RANGE[dtype][1] if ex.is_int_type(dtype) else 3
                vals = [Fraction(v) for v in (1, hi, hi - 1, 0, 2, hi)]
                before = col.r["violation_count"]
                _evaluate(col, method, dtype, (1, 2, 3), (2, 2, 1), outside,
                          [vals, vals[::-1]], ds)
                if col.r["violation_count"] != before:
                    # re-label: the same call on a fresh instance is correct
                    c2 = Collector()
                    _evaluate(c2, method, dtype, (1, 2, 3), (2, 2, 1),
                              outside, [vals, vals[::-1]])
                    if c2.r["violation_count"] == 0:
                        col.violation(
                            "C07/%s/result-depends-on-earlier-calls-of-the-"
                            "same-instance" % method,
                            {"kind": "reuse", "method": method,
                             "outside": outside, "sequence": list(seq),
                             "position": k}, "same as a fresh instance",
                            "differs after %r" % (list(seq[:k]),))
    col.sample({"kind": "reuse", "method": "average",
                "sequence": ["uint8", "uint16", "float32"]})


def _inst_configs():
    out = []
    for o in (None, 0.0, 7.0):
        out.append(("average", None, o))
        out.append(("auto", "image", o))
        out.append(("auto", "segmentation", o))
    out.append(("majority", None, None))
    out.append(("stride", None, None))
    return out


def _inst_make(cfg):
    from neuroglancer_scripts.downscaling import get_downscaler
    sel, typ, outside = cfg
    opts = {}
    if outside is not None:
        opts["outside_value"] = outside
    info = {"type": typ, "data_type": "uint8", "num_channels": 1,
            "scales": []} if typ else None
    ds = get_downscaler(sel, info, opts)
    eff = sel
    if sel == "auto":
        eff = "average" if typ == "image" else "stride"
    return ds, eff, (outside if eff == "average" else None)


def _run_instance_pair(col, a, b):
    """two downscalers obtained through get_downscaler (explicit method or
    'auto' resolved from the info type, with options) are alive at the same
    time; each is then used on border-overhanging arrays: the result is the
    one of the method and outside value IT was created with"""
    made = [_inst_make(a), _inst_make(b)]
    for which in (0, 1, 0):
        ds, eff, outside = made[which]
        for dtype in ("uint8", "uint16"):
            hi = ex.INT_RANGE[dtype][1]
            vals = [Fraction(v) for v in (1, hi, 3, 0, 2, hi - 1, 5, 9, 4)]
            before = col.r["violation_count"]
            _evaluate(col, eff, dtype, (1, 3, 3), (2, 2, 1), outside,
                      [vals], ds)
            if col.r["violation_count"] != before:
                col.violation(
                    "C07/instances/wrong-result-from-get_downscaler-with-"
                    "other-instances-alive/%s" % eff,
                    {"kind": "instances", "configs": [list(a), list(b)],
                     "used": which, "dtype": dtype},
                    "result of %s with outside value %r" % (eff, outside),
                    "differs (see the accompanying signature)")


def _run_instances(col):
    cfgs = _inst_configs()
    for a in cfgs:
        for b in cfgs:
            _run_instance_pair(col, a, b)
    col.sample({"kind": "instances",
                "configs": [["auto", "image", 7.0], ["average", None, None]]})


# ---- arrays and factors beyond the exhaustive alphabets -------------------
def _ref_blocks(a, factors, pad_value):
    """(Z,Y,X) int array -> (oz,oy,ox,fz*fy*fx) int64 blocks and a validity
    mask; overhanging voxels are edge values (pad_value None) or pad_value"""
    fx, fy, fz = factors
    Z, Y, X = a.shape
    oz, oy, ox = -(-Z // fz), -(-Y // fy), -(-X // fx)
    pz, py, px = oz * fz - Z, oy * fy - Y, ox * fx - X
    b = a.astype(np.int64) if a.dtype.kind in "iu" else a.astype(np.float64)
    valid = np.ones(a.shape, dtype=bool)
    if pad_value is None:
        b = np.pad(b, ((0, pz), (0, py), (0, px)), mode="edge")
    else:
        b = np.pad(b, ((0, pz), (0, py), (0, px)), mode="constant",
                   constant_values=pad_value)
    valid = np.pad(valid, ((0, pz), (0, py), (0, px)), mode="constant")

    def blocks(v):
        return v.reshape(oz, fz, oy, fy, ox, fx).transpose(
            0, 2, 4, 1, 3, 5).reshape(oz, oy, ox, fz * fy * fx)
    return blocks(b), blocks(valid)


def _ref_average_int(a, factors, outside):
    """exact integer mean, round half to even (integer input types and an
    integer outside value only)"""
    blk, _ = _ref_blocks(a, factors, None if outside is None
                         else int(outside))
    n = blk.shape[-1]
    sm = blk.sum(axis=-1)
    q, r = np.divmod(sm, n)
    up = (2 * r > n) | ((2 * r == n) & (q % 2 == 1))
    return (q + up).astype(a.dtype)


def _ref_majority(a, factors):
    blk, valid = _ref_blocks(a, factors, 0)
    oz, oy, ox, n = blk.shape
    out = np.zeros((oz, oy, ox), dtype=a.dtype)
    fb, fv = blk.reshape(-1, n), valid.reshape(-1, n)
    flat = out.reshape(-1)
    for i in range(fb.shape[0]):
        vals, counts = np.unique(fb[i][fv[i]], return_counts=True)
        flat[i] = vals[np.argmax(counts)]    # first maximum = smallest label
    return out


def _big_arrays():
    """(name, dtype, (Z,Y,X) array) - deterministic contents"""
    out = []
    # counts beyond 255 / 256 inside one 8x8x8 block (uint8 and uint16)
    for counts in ((300, 212), (256, 256), (257, 255), (511, 1),
                   (170, 171, 171), (212, 300)):
        labs = np.concatenate([np.full(c, 2 * k + 1 if counts != (212, 300)
                                       else 9 - 2 * k)
                               for k, c in enumerate(counts)])
        for dt in ("uint8", "uint16"):
            out.append(("votes-%s" % "-".join(map(str, counts)), dt,
                        labs.astype(dt).reshape(8, 8, 8)))
            out.append(("votes-2blocks-%s" % "-".join(map(str, counts)), dt,
                        np.concatenate([labs, labs[::-1]]).astype(dt)
                        .reshape(8, 8, 16)))
    # more than 32^3 voxels, few labels (ties are frequent)
    n = 34 * 34 * 66
    lab = ((np.arange(n) * 2654435761 % 4294967291) % 3 + 1)
    out.append(("ties-34x34x66", "uint32",
                lab.astype("uint32").reshape(34, 34, 66)))
    out.append(("ties-40x33x35", "uint8",
                lab[:40 * 33 * 35].astype("uint8").reshape(40, 33, 35)))
    # more than 2^20 voxels, plane size not a power of two
    n = 4 * 550 * 600
    out.append(("ramp-4x550x600", "uint8",
                (np.arange(n) * 7 % 251).astype("uint8")
                .reshape(4, 550, 600)))
    out.append(("ramp-5x301x700", "uint16",
                (np.arange(5 * 301 * 700) * 977 % 65521).astype("uint16")
                .reshape(5, 301, 700)))
    out.append(("ramp-7x262x400", "uint8",
                (np.arange(7 * 262 * 400) * 13 % 241).astype("uint8")
                .reshape(7, 262, 400)))
    return out


def _run_big(col, only=None):
    """single calls on arrays / factors beyond the exhaustive alphabets:
    blocks of up to 512 voxels (vote counts beyond 255), arrays of more
    than 32^3 and more than 2^20 voxels; numpy-integer references"""
    for k, (name, dt, a) in enumerate(_big_arrays()):
        if only is not None and k % 6 != only:
            continue
        if name.startswith("votes"):
            todo = [("majority", (8, 8, 8), None), ("majority", (4, 8, 8),
                                                    None),
                    ("stride", (8, 8, 8), None)]
        elif name.startswith("ties"):
            todo = [("majority", (2, 2, 2), None), ("majority", (2, 1, 2),
                                                    None),
                    ("majority", (3, 2, 1), None), ("stride", (2, 2, 2),
                                                    None),
                    ("average", (2, 2, 2), None), ("average", (2, 2, 2),
                                                   7.0)]
        else:
            todo = [("average", (2, 2, 2), None), ("average", (2, 2, 2),
                                                   0.0),
                    ("average", (1, 2, 2), 255.0), ("stride", (2, 2, 2),
                                                    None),
                    ("majority", (2, 2, 2), None)]
        for method, factors, outside in todo:
            case = {"kind": "big", "array": name, "dtype": dt,
                    "method": method, "factors": list(factors),
                    "outside": outside}
            chunk = np.stack([a, a[::-1, ::-1, ::-1]])
            if name.startswith("ramp-4x") or method == "stride":
                chunk = chunk[:1]         # one channel
            try:
                with np.errstate(all="ignore"):
                    res = _downscaler(method, outside).downscale(
                        chunk, factors)
            except Exception as exc:
                col.ev(1, 1, method + "-exception")
                col.violation("C07/%s/exception/%s" % (
                    method, type(exc).__name__), case, "downscaled array",
                    repr(exc)[:300])
                continue
            wants = []
            for ch in chunk:
                if method == "average":
                    wants.append(_ref_average_int(ch, factors, outside))
                elif method == "majority":
                    wants.append(_ref_majority(ch, factors))
                else:
                    fx, fy, fz = factors
                    wants.append(ch[::fz, ::fy, ::fx])
            want = np.stack(wants)
            if res.shape != want.shape or res.dtype != want.dtype:
                col.ev(1, 1, method + "-bad-shape")
                col.violation("C07/%s/shape-or-dtype" % method, case,
                              "%s %r" % (want.dtype, want.shape),
                              "%s %r" % (res.dtype, res.shape))
            elif not np.array_equal(res, want):
                bad = np.argwhere(res != want)
                col.ev(1, 1, method + "-wrong")
                col.violation("C07/%s/wrong-value/%s" % (method, dt), case,
                              "(c,z,y,x)=%s: %r" % (bad[0].tolist(),
                                                    want[tuple(bad[0])]),
                              "%r (%d voxels differ)" % (
                                  res[tuple(bad[0])], len(bad)))
            else:
                col.ev(1, 1, method + "-ok")
    col.sample({"kind": "big", "array": "votes-300-212", "dtype": "uint8",
                "method": "majority", "factors": [8, 8, 8]})


INF_SHAPES = [(2, 2, 2), (3, 3, 3), (1, 1, 4), (1, 5, 1), (2, 3, 1)]
INF_FACTORS = [(2, 2, 2), (2, 1, 1), (1, 2, 1), (1, 1, 2), (2, 2, 1),
               (1, 1, 1)]


def _inf_cases():
    out = []
    for shape in INF_SHAPES:
        n = shape[0] * shape[1] * shape[2]
        pats = [("all+inf", None), ("all-inf", None)]
        pats += [("one+inf", k) for k in range(n)]
        pats += [("one-inf", k) for k in (0, n - 1)]
        for factors in INF_FACTORS:
            for pat, k in pats:
                out.append((shape, factors, pat, k))
    return out


def _eval_infinity(col, shape, factors, pat, k):
    """float32 volumes holding infinities of one sign: the mean of a block
    that contains +inf (-inf) is +inf (-inf) - never NaN, which lies outside
    [min, max] of the block. Edge padding only."""
    n = shape[0] * shape[1] * shape[2]
    sign = 1.0 if "+" in pat else -1.0
    vals = [sign * float("inf")] * n if k is None else [
        (sign * float("inf")) if i == k else 1.5 + i for i in range(n)]
    case = {"kind": "infinity", "shape": list(shape),
            "factors": list(factors), "pattern": pat, "position": k}
    chunk = np.array(vals, dtype="float32").reshape((1,) + tuple(shape))
    ds = _downscaler("average", None)
    with np.errstate(all="ignore"):
        try:
            res = ds.downscale(chunk, tuple(factors))
        except Exception as exc:
            col.ev(1, 1, "average-exception")
            col.violation("C07/average/exception/" + type(exc).__name__,
                          case, "downscaled array", repr(exc)[:200])
            return
    oshape, blocks = _block_indices(shape, factors, True)
    ok = True
    flat = np.ascontiguousarray(res[0]).ravel() if tuple(
        res.shape) == (1,) + tuple(oshape) else None
    if flat is None or res.dtype != np.float32:
        col.ev(1, 1, "average-bad-shape")
        col.violation("C07/average/shape-or-dtype", case,
                      "float32 %r" % ((1,) + tuple(oshape),),
                      "%s %r" % (res.dtype, tuple(res.shape)))
        return
    for i, blk in enumerate(blocks):
        contrib = [vals[j] for _, j in blk]
        if any(np.isinf(v) for v in contrib):
            want = sign * float("inf")
            if not (np.isinf(flat[i]) and (flat[i] > 0) == (sign > 0)):
                ok = False
                col.violation("C07/average/outside-min-max-of-block/"
                              "float32-infinity", dict(case, voxel=i),
                              repr(want), repr(float(flat[i])))
        else:
            m = sum(Fraction(v) for v in contrib) / len(contrib)
            if abs(Fraction(float(flat[i])) - m) > Fraction(1, 2 ** 18):
                ok = False
                col.violation("C07/average/wrong-value/float32",
                              dict(case, voxel=i), float(m),
                              repr(float(flat[i])))
    col.ev(1, 1, "average-ok" if ok else "average-wrong")


def units(tier):
    u = []
    for dtype in DTYPES:
        for aname in ALPHA_NAMES.get(dtype, ["limits"]):
            for shape in shapes(tier):
                for method in ("average", "majority", "stride"):
                    n = shape[0] * shape[1] * shape[2]
                    if method != "average" and n >= 6 and tier == "quick":
                        # majority/stride do not depend on the outside value:
                        # one unit covers all factor triples
                        pass
                    u.append({"kind": "all", "dtype": dtype, "alpha": aname,
                              "shape": list(shape), "method": method})
    u.sort(key=lambda x: x["shape"][0] * x["shape"][1] * x["shape"][2])
    for dtype in DTYPES:
        u.append({"kind": "ramp", "dtype": dtype})
    u.append({"kind": "reject"})
    u.append({"kind": "reuse"})
    u.append({"kind": "instances"})
    u.append({"kind": "infinity"})
    for k in range(6):
        u.append({"kind": "big", "part": k})
    return u


def space(tier):
    sh = shapes(tier)
    big = 2 if tier == "quick" else 3
    return {"shapes": len(sh), "letters": "4 for <= 4 voxels, else %d" % big,
            "arrays": sum((4 if s[0] * s[1] * s[2] <= 4 else big)
                          ** (s[0] * s[1] * s[2]) for s in sh),
            "dtype_alphabets": 6, "factor_triples_average": 8,
            "factor_triples_majority_stride": 27, "outside_values": 4}


def _run_all(col, u, tier):
    dtype, shape, method = u["dtype"], tuple(u["shape"]), u["method"]
    n = shape[0] * shape[1] * shape[2]
    letters = alphabets(dtype, tier, n)[u["alpha"]]
    arrays = list(itertools.product(letters, repeat=n))
    outs = (outside_values(dtype, u["alpha"]) if method == "average"
            else [None])
    for outside in outs:
        ds = _downscaler(method, outside)
        for factors in _factor_sets(method):
            for i, a in enumerate(arrays):
                b = arrays[(i + 1) % len(arrays)]
                _evaluate(col, method, dtype, shape, factors, outside,
                          [list(a), list(b)], ds)
            # single-channel chunks too
            for a in arrays[:8]:
                _evaluate(col, method, dtype, shape, factors, outside,
                          [list(a)], ds)
    col.sample(_case(method, dtype, shape, (2, 1, 2), outs[-1],
                     [list(arrays[-1]), list(arrays[0])]))


def _run_ramp(col, dtype):
    hi = ex.INT_RANGE[dtype][1] if ex.is_int_type(dtype) else None
    for shape in itertools.product(range(1, 6), repeat=3):
        n = shape[0] * shape[1] * shape[2]
        if hi is None:
            ramp = [Fraction(3 * i - 7, 4) for i in range(n)]
        else:
            ramp = [Fraction((i * 37 + 11) % 251 if i % 5 else hi - i % 3)
                    for i in range(n)]
        for method in ("average", "majority", "stride"):
            outs = [None, 0.0] if method == "average" else [None]
            for outside in outs:
                for factors in _factor_sets(method):
                    if method != "average" and 3 in factors and \
                            max(shape) < 3:
                        continue
                    _evaluate(col, method, dtype, shape, factors, outside,
                              [ramp])
    col.sample({"kind": "ramp", "dtype": dtype, "shape": [5, 5, 5]})


_TIER = ["quick"]


def run_unit(u):
    col = Collector()
    if u["kind"] == "all":
        _run_all(col, u, u.get("tier", _TIER[0]))
    elif u["kind"] == "ramp":
        _run_ramp(col, u["dtype"])
    elif u["kind"] == "reuse":
        _run_reuse(col)
    elif u["kind"] == "instances":
        _run_instances(col)
    elif u["kind"] == "infinity":
        for c in _inf_cases():
            _eval_infinity(col, *c)
        col.sample({"kind": "infinity", "shape": [2, 2, 2],
                    "factors": [2, 2, 2], "pattern": "all+inf",
                    "position": None})
    elif u["kind"] == "big":
        _run_big(col, u.get("part"))
    else:
        for method, fs in BAD_FACTORS.items():
            for f in fs:
                _eval_reject(col, method, f)
        col.sample({"kind": "reject", "method": "average",
                    "factors": [3, 1, 1]})
    return col.result()


_orig_units = units


def units(tier):  # noqa: F811  (tier is carried inside each unit)
    us = _orig_units(tier)
    for x in us:
        x["tier"] = tier
    return us


def replay(case):
    col = Collector()
    if case.get("kind") == "reject":
        _eval_reject(col, case["method"], case["factors"])
        return col.records()
    if case.get("kind") == "infinity":
        _eval_infinity(col, tuple(case["shape"]), tuple(case["factors"]),
                       case["pattern"], case["position"])
        return [r for r in col.records()
                if r["case"].get("voxel") == case.get("voxel")]
    if case.get("kind") == "big":
        _run_big(col)
        return [r for r in col.records()
                if all(r["case"].get(k) == case.get(k)
                       for k in ("array", "dtype", "method", "factors",
                                 "outside"))]
    if case.get("kind") == "instances":
        _run_instance_pair(col, tuple(case["configs"][0]),
                           tuple(case["configs"][1]))
        return col.records()
    if case.get("kind") == "reuse":
        _run_reuse(col)
        return [r for r in col.records()
                if r["case"].get("kind") == "reuse"
                and r["case"].get("sequence") == case["sequence"]
                and r["case"].get("method") == case["method"]]
    chans = [[Fraction(v) for v in ch] for ch in case["values"]]
    _evaluate(col, case["method"], case["dtype"], tuple(case["shape"]),
              tuple(case["factors"]), case["outside"], chans)
    recs = col.records()
    if "voxel" in case:
        recs = [r for r in recs
                if r["case"].get("voxel") == case["voxel"]
                and r["case"].get("channel") == case["channel"]] or recs
    return recs
