"""C13 - re-encoding a dataset preserves its voxels exactly for lossless
targets and leaves the source unchanged.

E-INPUT over programs: source encoding/layout/sharding/HTTP x destination
encoding/layout/sharding x data-type widening x --copy-info; the real
convert-chunks command is run in-process (main(argv) + the exit handlers of
sharded accessors) and both datasets are decoded chunk by chunk through
fresh handles.
"""
import hashlib
import json
import os

import numpy as np

from mc import pipeline
from mc.env import httpsim, sandbox
from mc.oracle import exact_num as ex
from mc.runner import Collector

ID = "C13"
LEVEL = "exploration"
REQUIRED_CLASSES = ["ok"]
RULE = ("source {raw, compressed_segmentation, jpeg} x {deep gzip, flat "
        "no-gzip, deep no-gzip, flat gzip, sharded(1,1,0), HTTP flat, HTTP "
        "sharded} x destination {raw, compressed_segmentation 8^3 / 2^3} x "
        "{4 layouts, sharded(1,1,0) raw, sharded(2,1,1) gzip} x destination "
        "data type {same, every wider Neuroglancer type} x {--copy-info, "
        "pre-existing info}; two-scale sources with different chunk sizes "
        "per scale (cubic 2^3/4^3, and non-cubic (2,4,1)/(4,1,2) for "
        "unsharded pairs), 1-3 channels, position-coded voxels. The full product "
        "(about 6800 conversions) runs in both tiers. "
        "Plus sequences of three convert_chunks() library calls in one "
        "process (default options / one shared options dict; plain and two "
        "sharded sources sharing their scale keys); re-conversions into a "
        "destination already holding another dataset (flat/deep x gzip "
        "before x gzip after x source order); chunks of 256 KiB - 1 MiB "
        "converted to sharded raw / sharded gzip / unsharded; compressed_segmentation datasets with a different block size per scale, "
        "encoded / decoded by the specification-only codec at one end. Non-trivial: "
        "encoding, layout or data type differs between source and "
        "destination.")
ASSUMPTIONS = [
    "destination voxels must equal the source voxels as decoded by the "
    "package's reader (a lossy JPEG source is compared after decoding), "
    "converted exactly to the destination type",
    "the destination info has the source's scales and chunk sizes (the "
    "command's documented precondition)",
]
HOW_TO_READ = ("case: source dataset (dtype, channels, encoding, storage) "
               "built with PrecomputedIO; destination info as described; "
               "convert_chunks.main([src, dst] + argv)")

SIZE0, CS0 = [5, 4, 3], [2, 2, 2]
SIZE1, CS1 = [3, 2, 2], [4, 4, 4]
WIDER = {"uint8": ["uint16", "uint32", "uint64", "float32"],
         "uint16": ["uint32", "uint64", "float32"],
         "uint32": ["uint64"], "uint64": [], "float32": []}


def sharding(t, enc, ienc=None):
    return {"@type": "neuroglancer_uint64_sharded_v1", "hash": "identity",
            "minishard_bits": t[0], "shard_bits": t[1], "preshift_bits": t[2],
            "minishard_index_encoding": ienc or enc, "data_encoding": enc}


ANISO = ([2, 4, 1], [4, 1, 2])     # non-cubic chunk sizes (unsharded only)


def make_info(dtype, nch, enc, storage, aniso=False):
    scales = []
    for i, (size, cs) in enumerate(((SIZE0, ANISO[0] if aniso else CS0),
                                    (SIZE1, ANISO[1] if aniso else CS1))):
        s = {"key": "s%d" % i, "size": size, "chunk_sizes": [cs],
             "resolution": [2 ** i] * 3, "voxel_offset": [0, 0, 0],
             "encoding": enc["encoding"]}
        if enc["encoding"] == "compressed_segmentation":
            s["compressed_segmentation_block_size"] = enc["block"]
        if storage["kind"] == "sharded":
            s["sharding"] = sharding(storage["triple"], storage["enc"],
                                     storage.get("ienc"))
        scales.append(s)
    return {"type": "image", "data_type": dtype, "num_channels": nch,
            "scales": scales}


def acc_options(storage):
    if storage["kind"] == "file":
        return {"flat": storage["flat"], "gzip": storage["gzip"]}
    return {"sharding": True}


def cli_flags(storage):
    if storage["kind"] == "file":
        return (["--flat"] if storage["flat"] else []) + (
            [] if storage["gzip"] else ["--no-gzip"])
    return []


def level(info, i):
    size = info["scales"][i]["size"]
    nch = info["num_channels"]
    c, z, y, x = np.meshgrid(np.arange(nch), np.arange(size[2]),
                             np.arange(size[1]), np.arange(size[0]),
                             indexing="ij")
    v = 10 + 50 * c + 6 * x + 19 * y + 31 * z + 3 * i
    if info["data_type"] == "float32":
        v = v * 0.25
    return v.astype(info["data_type"])


def tree_hash(d):
    m = hashlib.sha256()
    for root, dirs, files in sorted(os.walk(d)):
        dirs.sort()
        for f in sorted(files):
            p = os.path.join(root, f)
            m.update(os.path.relpath(p, d).encode())
            with open(p, "rb") as fh:
                m.update(fh.read())
    return m.hexdigest()


def _eval(col, case):
    d = sandbox.fresh_dir("c13")
    try:
        _eval_in(col, case, d)
    finally:
        httpsim.SimAdapter.server = None
        sandbox.drop_captured_exit_handlers()
        sandbox.rm(d)


def _eval_in(col, case, d):
    from neuroglancer_scripts import accessor, precomputed_io
    src_st, dst_st = case["src_storage"], case["dst_storage"]
    root = os.path.join(d, "srv")
    src = os.path.join(root, "ds")
    os.makedirs(src)
    aniso = case.get("aniso_chunks", False)
    sinfo = make_info(case["dtype"], case["channels"], case["src_enc"],
                      src_st, aniso)
    sandbox.install_atexit_capture()
    try:
        acc = accessor.get_accessor_for_url(src, acc_options(src_st))
        pio = precomputed_io.get_IO_for_new_dataset(sinfo, acc)
        for i, sc in enumerate(sinfo["scales"]):
            lv = level(sinfo, i)
            for cc in pipeline.chunk_grid(sc["size"], sc["chunk_sizes"][0]):
                pio.write_chunk(np.ascontiguousarray(
                    lv[:, cc[4]:cc[5], cc[2]:cc[3], cc[0]:cc[1]]),
                    sc["key"], cc)
        with sandbox.quiet():
            sandbox.run_captured_exit_handlers()
            if src_st["kind"] == "sharded":
                acc.close()
        rd = pipeline.open_dataset(src)
        src_levels = [pipeline.read_scale(rd, i) for i in range(2)]
    except Exception as exc:
        col.ev(1, 0, "setup-failed/" + type(exc).__name__)
        return
    before = tree_hash(src)
    dst = os.path.join(d, "dst")
    os.makedirs(dst)
    dinfo = make_info(case["dst_dtype"], case["channels"], case["dst_enc"],
                      dst_st, aniso)
    if not case["copy_info"]:
        with open(os.path.join(dst, "info"), "w") as f:
            json.dump(dinfo, f)
    src_url = src
    if case["http"]:
        httpsim.serve(root)
        src_url = "http://sim/ds"
    # the destination spelled as a path or as one of the URL forms the
    # option documents ("URL/directory")
    import urllib.parse
    dst_arg = {"path": dst,
               "file-url": "file://" + urllib.parse.quote(dst),
               "precomputed-file-url": "precomputed://file://"
               + urllib.parse.quote(dst)}[case.get("dst_form", "path")]
    argv = [src_url, dst_arg] + cli_flags(dst_st)
    if case.get("compresslevel") is not None:
        argv += ["--compresslevel", str(case["compresslevel"])]
    if case["copy_info"]:
        argv.append("--copy-info")
    with np.errstate(all="ignore"):
        r = sandbox.run_cli("convert_chunks", argv)
    httpsim.SimAdapter.server = None
    nontriv = 1 if (case["src_enc"] != case["dst_enc"] or src_st != dst_st
                    or case["dtype"] != case["dst_dtype"]) else 0
    tag = "%s-to-%s" % (
        ("http-" if case["http"] else "") + src_st["kind"], dst_st["kind"])
    if not r.ok:
        col.ev(1, nontriv, "command-failed")
        col.violation("C13/command-failed/%s/%s" % (
            tag, type(r.exc).__name__ if r.exc else (
                type(r.exit_errors[0]).__name__ if r.exit_errors
                else "status")), case, "exit status 0", r.brief())
        return
    ok = True
    if tree_hash(src) != before:
        ok = False
        col.violation("C13/source-modified", case, "source tree unchanged",
                      "source tree changed")
    eff = sinfo if case["copy_info"] else dinfo
    try:
        got_info = pipeline.load_info(dst) if os.path.exists(
            os.path.join(dst, "info")) else json.loads(
            accessor.get_accessor_for_url(dst).fetch_file("info"))
    except Exception as exc:
        col.ev(1, nontriv, "bad")
        col.violation("C13/destination-info-unreadable/"
                      + type(exc).__name__, case, "info", repr(exc)[:200])
        return
    if got_info != json.loads(json.dumps(eff)):
        ok = False
        col.violation("C13/destination-info-differs", case,
                      "the %s info" % ("source" if case["copy_info"]
                                       else "pre-existing"), "different")
    try:
        rd2 = pipeline.open_dataset(dst)
        dst_levels = [pipeline.read_scale(rd2, i) for i in range(2)]
    except Exception as exc:
        col.ev(1, nontriv, "bad")
        col.violation("C13/destination-unreadable/%s/%s"
                      % (tag + ("/copy-info" if case["copy_info"] else ""),
                         type(exc).__name__), case,
                      "every chunk of every scale decodes", repr(exc)[:300])
        return
    out_dt = eff["data_type"]
    for i in range(2):
        want = np.zeros(src_levels[i].shape, dtype=out_dt)
        it = np.nditer(src_levels[i], flags=["multi_index"])
        for v in it:
            want[it.multi_index] = ex.convert(ex.to_fraction(v.item()),
                                              out_dt)
        g = dst_levels[i]
        if g.shape != want.shape or \
                g.dtype.newbyteorder("=") != want.dtype.newbyteorder("="):
            ok = False
            col.violation("C13/scale-shape-or-dtype", dict(case, scale=i),
                          "%s %r" % (want.dtype, want.shape),
                          "%s %r" % (g.dtype, g.shape))
        elif g.tobytes() != want.astype(g.dtype).tobytes():
            ok = False
            bad = np.argwhere(g != want)
            col.violation("C13/voxels-differ/" + tag, dict(case, scale=i),
                          "source voxels after the type conversion",
                          "(c,z,y,x)=%s: got %r expected %r (%d voxels)" % (
                              bad[0].tolist(), g[tuple(bad[0])],
                              want[tuple(bad[0])], len(bad)))
    col.ev(1, nontriv, "ok" if ok else "bad")


FILE_STS = [{"kind": "file", "flat": False, "gzip": True},
            {"kind": "file", "flat": True, "gzip": False},
            {"kind": "file", "flat": False, "gzip": False},
            {"kind": "file", "flat": True, "gzip": True}]
SH1 = {"kind": "sharded", "triple": [1, 1, 0], "enc": "raw"}
SH2 = {"kind": "sharded", "triple": [2, 1, 1], "enc": "gzip"}
SH3 = {"kind": "sharded", "triple": [1, 1, 0], "enc": "raw", "ienc": "gzip"}
SH4 = {"kind": "sharded", "triple": [1, 0, 1], "enc": "gzip", "ienc": "raw"}
RAW = {"encoding": "raw"}
CS8 = {"encoding": "compressed_segmentation", "block": [8, 8, 8]}
CS2 = {"encoding": "compressed_segmentation", "block": [2, 2, 2]}
JPG = {"encoding": "jpeg"}


def cases(tier):
    out = []
    sources = []
    for st in FILE_STS + [SH1, SH3]:
        sources.append((st, False))
    sources.append((FILE_STS[1], True))       # HTTP, flat no-gzip
    sources.append((FILE_STS[3], True))       # HTTP, flat gzip (gzip_static)
    sources.append((SH1, True))               # HTTP sharded
    dests = FILE_STS + [SH1, SH2, SH3, SH4]
    n = 0
    for dtype, nch, src_encs in (("uint8", 1, [RAW, JPG]),
                                 ("uint8", 3, [RAW, JPG]),
                                 ("uint16", 2, [RAW]),
                                 ("uint32", 1, [RAW, CS8, CS2]),
                                 ("uint64", 2, [RAW, CS8]),
                                 ("float32", 1, [RAW])):
        for src_enc in src_encs:
            for src_st, http in sources:
                for dst_st in dests:
                    for dst_dtype in [dtype] + WIDER[dtype]:
                        dst_encs = [RAW]
                        if dst_dtype in ("uint32", "uint64"):
                            dst_encs += [CS8, CS2]
                        for dst_enc in dst_encs:
                            for copy_info in (False, True):
                                if copy_info and (dst_dtype != dtype
                                                  or dst_enc != src_enc):
                                    continue
                                n += 1
                                if (src_st["kind"] == "file"
                                        and dst_st["kind"] == "file"
                                        and n % 2 == 0):
                                    out.append({
                                        "dtype": dtype, "channels": nch,
                                        "src_enc": src_enc,
                                        "src_storage": src_st, "http": http,
                                        "dst_enc": dst_enc,
                                        "dst_storage": dst_st,
                                        "dst_dtype": dst_dtype,
                                        "copy_info": copy_info,
                                        "aniso_chunks": True})
                                out.append({
                                    "dtype": dtype, "channels": nch,
                                    "src_enc": src_enc,
                                    "src_storage": src_st, "http": http,
                                    "dst_enc": dst_enc,
                                    "dst_storage": dst_st,
                                    "dst_dtype": dst_dtype,
                                    "copy_info": copy_info})
    # command-line spellings: destination as path / file:// URL /
    # precomputed://file:// URL; --compresslevel omitted or 0..9
    for i, c in enumerate(out):
        form = ("path", "file-url", "precomputed-file-url")[(i // 2) % 3]
        if form != "path":
            c["dst_form"] = form
        lvl = (None, 9, 0, 1, 6, None, 3, 8)[(i // 3) % 8]
        if lvl is not None:
            c["compresslevel"] = lvl
    return out


def _eval_api_sequences(col):
    """the library function convert_chunks() called several times in one
    process, with its default options and with one shared options dict:
    every conversion must be correct whatever ran before it"""
    import itertools

    from neuroglancer_scripts import accessor, precomputed_io
    from neuroglancer_scripts.scripts import convert_chunks as cc
    d = sandbox.fresh_dir("c13s")
    try:
        srcs = {}
        for name, st in (("plain", FILE_STS[1]), ("sharded", SH1),
                         ("sharded-b", SH1)):
            src = os.path.join(d, "src-" + name)
            os.makedirs(src)
            info = make_info("uint16", 1, RAW, st)
            sandbox.install_atexit_capture()
            acc = accessor.get_accessor_for_url(src, acc_options(st))
            pio = precomputed_io.get_IO_for_new_dataset(info, acc)
            for i, sc in enumerate(info["scales"]):
                lv = level(info, i)
                if name == "sharded-b":
                    # same geometry and scale keys, other voxel values
                    lv = (lv + 1000).astype(lv.dtype)
                for c in pipeline.chunk_grid(sc["size"],
                                             sc["chunk_sizes"][0]):
                    pio.write_chunk(np.ascontiguousarray(
                        lv[:, c[4]:c[5], c[2]:c[3], c[0]:c[1]]),
                        sc["key"], c)
            with sandbox.quiet():
                sandbox.run_captured_exit_handlers()
                if st["kind"] == "sharded":
                    acc.close()
            want = [level(info, i) if name != "sharded-b" else
                    (level(info, i) + 1000).astype(level(info, i).dtype)
                    for i in range(2)]
            try:
                rd = pipeline.open_dataset(src)
                back = [pipeline.read_scale(rd, i) for i in range(2)]
                if not all(np.array_equal(a, b) for a, b in zip(back, want)):
                    raise AssertionError("voxels differ")
            except Exception as exc:
                col.ev(1, 1, "bad")
                col.violation(
                    "C13/api-sequence/source-not-readable-as-written/"
                    + type(exc).__name__,
                    {"kind": "api-sequence", "sequence": [name],
                     "position": -1, "shared_options": False},
                    "the written voxels", repr(exc)[:200])
                return
            srcs[name] = (src, want)
        n = 0
        for seq in itertools.permutations(
                ["plain", "sharded", "sharded-b", "sharded"], 3):
            for shared in (False, True):
                opts = {"flat": True, "gzip": False}
                for k, name in enumerate(seq):
                    n += 1
                    dst = os.path.join(d, "dst%d" % n)
                    os.makedirs(dst)
                    case = {"kind": "api-sequence", "sequence": list(seq),
                            "position": k, "shared_options": shared}
                    try:
                        with sandbox.quiet(), np.errstate(all="ignore"):
                            if shared:
                                cc.convert_chunks(srcs[name][0], dst,
                                                  copy_info=True,
                                                  options=opts)
                            else:
                                cc.convert_chunks(srcs[name][0], dst,
                                                  copy_info=True)
                            errs = sandbox.run_captured_exit_handlers()
                        if errs:
                            raise errs[0]
                        rd = pipeline.open_dataset(dst)
                        got = [pipeline.read_scale(rd, i) for i in range(2)]
                        good = all(np.array_equal(a, b) for a, b in
                                   zip(got, srcs[name][1]))
                        if not good:
                            raise AssertionError("voxels differ")
                        col.ev(1, 1, "ok")
                    except Exception as exc:
                        col.ev(1, 1, "bad")
                        col.violation(
                            "C13/api-sequence/conversion-depends-on-earlier-"
                            "calls/" + type(exc).__name__, case,
                            "destination equal to the source",
                            repr(exc)[:200])
                    finally:
                        sandbox.drop_captured_exit_handlers()
                        sandbox.rm(dst)
        col.sample({"kind": "api-sequence",
                    "sequence": ["sharded", "plain", "sharded"]})
    finally:
        sandbox.drop_captured_exit_handlers()
        sandbox.rm(d)


def _write_src(src, info, shift):
    from neuroglancer_scripts import accessor, precomputed_io
    os.makedirs(src)
    acc = accessor.get_accessor_for_url(src, {"flat": False, "gzip": True})
    pio = precomputed_io.get_IO_for_new_dataset(info, acc)
    want = []
    for i, sc in enumerate(info["scales"]):
        lv = (level(info, i) + shift).astype(info["data_type"])
        want.append(lv)
        for c in pipeline.chunk_grid(sc["size"], sc["chunk_sizes"][0]):
            pio.write_chunk(np.ascontiguousarray(
                lv[:, c[4]:c[5], c[2]:c[3], c[0]:c[1]]), sc["key"], c)
    return want


def _eval_big_chunks(col):
    """chunks of 256 KiB .. 1 MiB (64^3 uint8, 64^3 uint32, 128x64x64
    uint16): unsharded source -> sharded raw / sharded gzip / unsharded
    destinations, and sharded -> unsharded"""
    from neuroglancer_scripts import accessor, precomputed_io
    from neuroglancer_scripts.scripts import convert_chunks as cc
    d = sandbox.fresh_dir("c13b")
    try:
        n = 0
        for dtype, size, cs in (("uint8", [128, 64, 64], [64, 64, 64]),
                                ("uint32", [64, 64, 70], [64, 64, 64]),
                                ("uint16", [128, 64, 64], [64, 64, 64])):
            info = {"type": "image", "data_type": dtype, "num_channels": 1,
                    "scales": [{"key": "s0", "size": size,
                                "chunk_sizes": [cs], "resolution": [1, 1, 1],
                                "voxel_offset": [0, 0, 0],
                                "encoding": "raw"}]}
            src = os.path.join(d, "src-" + dtype)
            os.makedirs(src)
            acc = accessor.get_accessor_for_url(src, {"flat": True,
                                                      "gzip": False})
            pio = precomputed_io.get_IO_for_new_dataset(info, acc)
            z, y, x = np.meshgrid(np.arange(size[2]), np.arange(size[1]),
                                  np.arange(size[0]), indexing="ij")
            vol = ((x * 3 + y * 7 + z * 13) % 251).astype(dtype)[np.newaxis]
            for c in pipeline.chunk_grid(size, cs):
                pio.write_chunk(np.ascontiguousarray(
                    vol[:, c[4]:c[5], c[2]:c[3], c[0]:c[1]]), "s0", c)
            for dst_st in (SH1, SH2, FILE_STS[0]):
                n += 1
                dst = os.path.join(d, "dst%d" % n)
                os.makedirs(dst)
                dinfo = json.loads(json.dumps(info))
                if dst_st["kind"] == "sharded":
                    dinfo["scales"][0]["sharding"] = sharding(
                        dst_st["triple"], dst_st["enc"], dst_st.get("ienc"))
                with open(os.path.join(dst, "info"), "w") as f:
                    json.dump(dinfo, f)
                case = {"kind": "big-chunks", "dtype": dtype,
                        "chunk": cs, "dst_storage": dst_st}
                sandbox.install_atexit_capture()
                try:
                    with sandbox.quiet(), np.errstate(all="ignore"):
                        cc.convert_chunks(src, dst, options=acc_options(
                            dst_st))
                        errs = sandbox.run_captured_exit_handlers()
                    if errs:
                        raise errs[0]
                    rd = pipeline.open_dataset(dst)
                    got = pipeline.read_scale(rd, 0)
                    if not np.array_equal(got, vol):
                        raise AssertionError("%d voxels differ" % int(
                            np.count_nonzero(got != vol)))
                    col.ev(1, 1, "ok")
                except Exception as exc:
                    col.ev(1, 1, "bad")
                    col.violation("C13/big-chunks/destination-differs/"
                                  + type(exc).__name__, case,
                                  "every voxel of the source",
                                  repr(exc)[:200])
                finally:
                    sandbox.drop_captured_exit_handlers()
                    sandbox.rm(dst)
        col.sample({"kind": "big-chunks", "dtype": "uint8",
                    "chunk": [64, 64, 64], "dst_storage": SH1})
    finally:
        sandbox.rm(d)


def _eval_foreign_cseg(col):
    """compressed_segmentation datasets whose two scales use DIFFERENT block
    sizes, with an independent codec at one end: (1) source chunks encoded
    by the harness's specification-only encoder, converted to raw and to
    compressed_segmentation with other per-scale block sizes; (2) every
    compressed_segmentation destination decoded by the specification-only
    decoder with the block size its own info declares"""
    from mc.oracle import cseg_spec
    from neuroglancer_scripts import accessor
    from neuroglancer_scripts.scripts import convert_chunks as cc
    d = sandbox.fresh_dir("c13f")
    try:
        sizes = ([9, 6, 5], [5, 3, 3])
        chunk = [4, 4, 4]

        def mk_info(enc_blocks, dtype="uint32"):
            scales = []
            for k, size in enumerate(sizes):
                sc = {"key": "s%d" % k, "size": size,
                      "chunk_sizes": [chunk], "resolution": [2 ** k] * 3,
                      "voxel_offset": [0, 0, 0]}
                if enc_blocks is None:
                    sc["encoding"] = "raw"
                else:
                    sc["encoding"] = "compressed_segmentation"
                    sc["compressed_segmentation_block_size"] = \
                        enc_blocks[k]
                scales.append(sc)
            return {"type": "segmentation", "data_type": dtype,
                    "num_channels": 1, "scales": scales}

        def volume(k):
            size = sizes[k]
            z, y, x = np.meshgrid(np.arange(size[2]), np.arange(size[1]),
                                  np.arange(size[0]), indexing="ij")
            return ((x // 2 + 3 * (y // 2) + 7 * z + k) % 5 * 1000003
                    ).astype("uint32")[np.newaxis]

        src_blocks = ([8, 8, 8], [2, 4, 4])
        src = os.path.join(d, "src")
        os.makedirs(src)
        with open(os.path.join(src, "info"), "w") as f:
            json.dump(mk_info(src_blocks), f)
        acc = accessor.get_accessor_for_url(src, {"flat": True,
                                                  "gzip": False})
        vols = [volume(0), volume(1)]
        for k, size in enumerate(sizes):
            for c in pipeline.chunk_grid(size, chunk):
                sub = vols[k][:, c[4]:c[5], c[2]:c[3], c[0]:c[1]]
                buf = cseg_spec.encode_variant(
                    [sub[0].ravel().tolist()], sub.shape[1:],
                    tuple(src_blocks[k]), 4, "plain")
                acc.store_chunk(bytes(buf), "s%d" % k, c)
        n = 0
        for dst_blocks in (None, ([2, 2, 2], [8, 8, 8]),
                           ([4, 4, 4], [4, 4, 2])):
            n += 1
            dst = os.path.join(d, "dst%d" % n)
            os.makedirs(dst)
            with open(os.path.join(dst, "info"), "w") as f:
                json.dump(mk_info(dst_blocks), f)
            case = {"kind": "foreign-cseg", "source_blocks": src_blocks,
                    "destination_blocks": dst_blocks}
            try:
                with sandbox.quiet():
                    cc.convert_chunks(src, dst, options={"flat": True,
                                                         "gzip": False})
                dacc = accessor.get_accessor_for_url(dst)
                for k, size in enumerate(sizes):
                    for c in pipeline.chunk_grid(size, chunk):
                        raw = bytes(dacc.fetch_chunk("s%d" % k, c))
                        want = vols[k][:, c[4]:c[5], c[2]:c[3], c[0]:c[1]]
                        if dst_blocks is None:
                            got = np.frombuffer(raw, "<u4").reshape(
                                want.shape)
                        else:
                            got = np.array(cseg_spec.decode(
                                raw, 1, want.shape[1:],
                                tuple(dst_blocks[k]), 4),
                                dtype="uint32").reshape(want.shape)
                        if not np.array_equal(got, want):
                            raise AssertionError(
                                "scale %d chunk %r: %d voxels differ" % (
                                    k, c, int(np.count_nonzero(
                                        got != want))))
                col.ev(1, 1, "ok")
            except Exception as exc:
                col.ev(1, 1, "bad")
                col.violation("C13/foreign-cseg/destination-differs/"
                              + type(exc).__name__, case,
                              "every voxel of the source, decoded with the "
                              "block size each info declares",
                              repr(exc)[:200])
        col.sample({"kind": "foreign-cseg",
                    "source_blocks": [[8, 8, 8], [2, 4, 4]],
                    "destination_blocks": None})
    finally:
        sandbox.drop_captured_exit_handlers()
        sandbox.rm(d)


def _eval_reruns(col):
    """a destination that already holds a conversion of another dataset of
    the same geometry (same layout, either gzip setting) is converted into
    again: it must end up equal to the new source, which stays unchanged"""
    from neuroglancer_scripts.scripts import convert_chunks as cc
    d = sandbox.fresh_dir("c13r")
    try:
        info = make_info("uint16", 2, RAW, FILE_STS[0])
        srcs = []
        for k, shift in enumerate((0, 777)):
            src = os.path.join(d, "src%d" % k)
            srcs.append((src, _write_src(src, info, shift)))
        n = 0
        for flat in (False, True):
            for gz1 in (True, False):
                for gz2 in (True, False):
                    for order in ((0, 1), (1, 0), (0, 0)):
                        n += 1
                        dst = os.path.join(d, "dst%d" % n)
                        os.makedirs(dst)
                        case = {"kind": "rerun", "flat": flat,
                                "gzip_first": gz1, "gzip_second": gz2,
                                "sources": list(order)}
                        before = tree_hash(srcs[order[1]][0])
                        try:
                            with sandbox.quiet(), np.errstate(all="ignore"):
                                cc.convert_chunks(
                                    srcs[order[0]][0], dst, copy_info=True,
                                    options={"flat": flat, "gzip": gz1})
                                cc.convert_chunks(
                                    srcs[order[1]][0], dst, copy_info=False,
                                    options={"flat": flat, "gzip": gz2})
                            rd = pipeline.open_dataset(
                                dst, {"flat": flat, "gzip": gz2})
                            got = [pipeline.read_scale(rd, i)
                                   for i in range(2)]
                            if not all(np.array_equal(a, b) for a, b in
                                       zip(got, srcs[order[1]][1])):
                                raise AssertionError(
                                    "destination differs from the source "
                                    "converted last")
                            if tree_hash(srcs[order[1]][0]) != before:
                                raise AssertionError("source modified")
                            col.ev(1, 1, "ok")
                        except Exception as exc:
                            col.ev(1, 1, "bad")
                            col.violation(
                                "C13/rerun/destination-not-equal-to-the-"
                                "last-source/" + type(exc).__name__, case,
                                "every chunk of the second conversion",
                                repr(exc)[:200])
                        finally:
                            sandbox.rm(dst)
        col.sample({"kind": "rerun", "flat": False, "gzip_first": False,
                    "gzip_second": True, "sources": [0, 1]})
    finally:
        sandbox.rm(d)


def units(tier):
    cs = cases(tier)
    per = 20
    u = [{"cases": cs[i:i + per]} for i in range(0, len(cs), per)]
    u.append({"kind": "api-sequences"})
    u.append({"kind": "reruns"})
    u.append({"kind": "big-chunks"})
    u.append({"kind": "foreign-cseg"})
    return u


def space(tier):
    return {"cases_run": len(cases(tier)),
            "full_product": len(cases("thorough"))}


def run_unit(u):
    col = Collector()
    if u.get("kind") == "api-sequences":
        _eval_api_sequences(col)
        return col.result()
    if u.get("kind") == "reruns":
        _eval_reruns(col)
        return col.result()
    if u.get("kind") == "big-chunks":
        _eval_big_chunks(col)
        return col.result()
    if u.get("kind") == "foreign-cseg":
        _eval_foreign_cseg(col)
        return col.result()
    for case in u["cases"]:
        _eval(col, case)
    col.sample(u["cases"][0])
    return col.result()


def replay(case):
    col = Collector()
    if case.get("kind") == "api-sequence":
        _eval_api_sequences(col)
        return [r for r in col.records()
                if r["case"].get("sequence") == case["sequence"]
                and r["case"].get("shared_options")
                == case["shared_options"]]
    if case.get("kind") == "foreign-cseg":
        _eval_foreign_cseg(col)
        return [r for r in col.records()
                if r["case"].get("destination_blocks")
                == case["destination_blocks"]]
    if case.get("kind") == "big-chunks":
        _eval_big_chunks(col)
        return [r for r in col.records()
                if r["case"].get("dtype") == case["dtype"]
                and r["case"].get("dst_storage") == case["dst_storage"]]
    if case.get("kind") == "rerun":
        _eval_reruns(col)
        return [r for r in col.records() if all(
            r["case"].get(k) == case[k] for k in (
                "flat", "gzip_first", "gzip_second", "sources"))]
    c = dict(case)
    c.pop("scale", None)
    _eval(col, c)
    return col.records()
