"""C11 - data-type conversion rounds to nearest and saturates, never wraps.

E-INPUT: 10 input types x 5 output types x both buffer-reuse modes x 6
array layouts x a value alphabet built around every decision point (type
limits, ties, +-1, neighbours in the input type's own lattice), each value
alone and all values together, against an exact rational reference.
"""
from fractions import Fraction

import numpy as np

from mc.oracle import exact_num as ex
from mc.runner import Collector

ID = "C11"
LEVEL = "exploration"
REQUIRED_CLASSES = ["ok"]
RULE = ("for every (input dtype, output dtype) pair: alphabet = {input "
        "min/max, output min/max, 0, +-1, +-0.5, +-1.5, +-2.5, 2^24+-1, "
        "2^53+-1, 2^63, 2^64-2048, float32 max, values beyond float32 max, float32 midpoints 2^k + 2^(k-24) for k up to 63} "
        "each also +-1, +-0.5 and its neighbours in the input lattice, "
        "restricted to values the input type represents exactly; evaluated "
        "(a) all together in one array in 6 layouts (C, Fortran, strided, "
        "read-only, reversed, empty, big-endian dtype, big-endian array with a "
        "native-dtype transformer; after the contiguous conversion the same converter is used on a second chunk and the first result must not change) and (b) each value alone; both "
        "preserve_input modes. One evaluation = one array element converted; "
        "non-trivial = the value is not preserved verbatim (needs rounding "
        "or saturation) or lies outside [-1, 1].")
ASSUMPTIONS = [
    "reference = nearest representable target value of the exact rational, "
    "ties to even, saturating (float32 target: correctly rounded, saturating "
    "at +-max)",
    "NaN and infinities are outside the statement ('all finite values')",
]
HOW_TO_READ = ("case: get_chunk_dtype_transformer(in, out)(array(values) in "
               "the given layout, preserve_input=preserve); 'index' is the "
               "element that differs; values are exact rationals as strings")

IN_TYPES = ["int8", "uint8", "int16", "uint16", "int32", "uint32", "int64",
            "uint64", "float32", "float64"]
OUT_TYPES = ["uint8", "uint16", "uint32", "uint64", "float32"]
_TRANSFORMERS = {}
LAYOUTS = ["contig", "fortran", "strided", "readonly", "reversed", "empty",
           "bigendian", "bigendian-array-only"]


def _limits(t):
    if ex.is_int_type(t):
        return [Fraction(v) for v in ex.INT_RANGE[t]]
    if t == "float32":
        return [-ex.F32_MAX, ex.F32_MAX]
    m = Fraction(float(np.finfo(np.float64).max))
    return [-m, m]


def alphabet(tin, tout):
    base = set()
    for t in (tin, tout):
        base.update(_limits(t))
    base.update(Fraction(v) for v in (0, 1, -1, 2, 3, 127, 128, 255, 256))
    base.update(Fraction(n, 2) for n in (1, -1, 3, -3, 5, -5, 7, 509, 511,
                                         513, 131069, 131071))
    base.update(Fraction(v) for v in (2 ** 24 - 1, 2 ** 24 + 1, 2 ** 53 - 1,
                                      2 ** 53 + 1, 2 ** 63, 2 ** 64 - 2048,
                                      2 ** 31, 2 ** 32, 2 ** 64, 2 ** 65,
                                      -2 ** 40))
    base.update([ex.F32_MAX * 2, -ex.F32_MAX * 2, Fraction(10) ** 39])
    if tout == "float32":
        # midpoints between consecutive float32 values at large magnitudes
        # (+-1 is added below): a conversion that rounds twice (through
        # float64) goes wrong just past them
        for k in (24, 25, 31, 32, 40, 52, 53, 54, 55, 62, 63):
            base.add(Fraction(2 ** k + 2 ** (k - 24)))
            base.add(Fraction(2 ** k + 3 * 2 ** (k - 24)))
    if tout == "uint64":
        # the largest float64 below 2^64 and its neighbours
        base.update(Fraction(v) for v in (2 ** 64 - 2048, 2 ** 64 - 4096,
                                          2 ** 63 + 1024))
    cand = set(base)
    for b in base:
        for d in (1, -1, Fraction(1, 2), Fraction(-1, 2)):
            cand.add(b + d)
    vals = {v for v in cand if ex.representable(v, tin)}
    # neighbours in the input type's own lattice (floats only)
    if not ex.is_int_type(tin):
        ft = np.float32 if tin == "float32" else np.float64
        with np.errstate(all="ignore"):
            for b in list(base):
                try:
                    f = ft(float(b))
                except OverflowError:
                    continue
                for nb in (f, np.nextafter(f, ft(np.inf)),
                           np.nextafter(f, ft(-np.inf))):
                    if np.isfinite(nb):
                        vals.add(Fraction(float(nb)))
    return sorted(vals)


def _layout(arr1d, layout):
    """arrange a 1-D array into a 4-D chunk in the given memory layout"""
    n = arr1d.size
    if layout == "empty":
        return arr1d[:0].reshape(1, 0, 1, 1), []
    idx = list(range(n))
    if layout == "contig":
        a = arr1d.reshape(1, 1, 1, n).copy()
    elif layout == "fortran":
        pad = n + (n % 2)
        b = np.resize(arr1d, pad)
        idx = [i % n for i in range(pad)]
        a = np.asfortranarray(b.reshape(1, 2, 1, pad // 2))
        idx = np.array(idx).reshape(1, 2, 1, pad // 2).ravel().tolist()
    elif layout == "strided":
        b = np.empty(2 * n, dtype=arr1d.dtype)
        b[::2] = arr1d
        b[1::2] = arr1d[::-1]
        a = b[::2].reshape(1, 1, 1, n)
    elif layout == "readonly":
        a = np.frombuffer(arr1d.tobytes(), dtype=arr1d.dtype).reshape(
            1, 1, 1, n)
    elif layout == "reversed":
        a = arr1d.copy()[::-1].reshape(1, 1, 1, n)
        idx = idx[::-1]
    elif layout in ("bigendian", "bigendian-array-only"):
        # non-native byte order (data read from a big-endian file)
        a = arr1d.astype(arr1d.dtype.newbyteorder(">")).reshape(1, 1, 1, n)
    else:
        raise ValueError(layout)
    return a, idx


def _category(v, tin, tout):
    if ex.is_int_type(tout):
        lo, hi = ex.INT_RANGE[tout]
        if v > hi or v < lo:
            return "saturation"
        if v.denominator != 1:
            return "rounding"
        if abs(v) > 2 ** 53:
            return "exact-above-2^53"
        return "exact"
    if abs(v) > ex.F32_MAX:
        return "saturation-float32"
    if not ex.representable(v, "float32"):
        return "rounding-float32"
    return "exact"


def _case(tin, tout, preserve, layout, values):
    return {"in": tin, "out": tout, "preserve": preserve, "layout": layout,
            "values": [str(v) for v in values]}


def _evaluate(col, tin, tout, preserve, layout, values):
    from neuroglancer_scripts.data_types import get_chunk_dtype_transformer
    case = _case(tin, tout, preserve, layout, values)
    arr1d = ex.make_array(values, tin)
    a, idx = _layout(arr1d, layout)
    before = a.tobytes()
    base = a.base if a.base is not None else None
    base_before = base.tobytes() if isinstance(base, np.ndarray) else None
    n_elems = max(1, len(idx))
    with np.errstate(all="ignore"):
        try:
            # one transformer serves many chunks (as in a conversion run)
            key = (tin, tout, layout == "bigendian")
            tr = _TRANSFORMERS.get(key)
            if tr is None:
                tr = _TRANSFORMERS[key] = get_chunk_dtype_transformer(
                    np.dtype(tin).newbyteorder(">") if layout == "bigendian"
                    else tin, tout, warn=False)
            res = tr(a, preserve_input=preserve)
            if layout == "contig" and len(values) > 1:
                # the same converter on another chunk of the same shape:
                # the array returned for THIS chunk must not change
                snap = res.copy()
                other = ex.make_array(values[::-1], tin).reshape(a.shape)
                tr(other, preserve_input=True)
                if res.tobytes() != snap.tobytes():
                    col.violation(
                        "C11/earlier-result-changed-by-a-later-conversion",
                        case, "returned arrays stay as returned",
                        "the result of the first chunk changed when the "
                        "converter was used on a second chunk")
                    res = snap
        except Exception as exc:
            col.ev(n_elems, n_elems, "exception")
            col.violation("C11/exception/%s/preserve_input=%s/%s"
                          % (type(exc).__name__, preserve,
                             "readonly-input" if layout == "readonly"
                             else "writable-input"),
                          case, "converted array", repr(exc)[:300])
            return
    if res.dtype.newbyteorder("=") != np.dtype(tout) or res.shape != a.shape:
        col.ev(n_elems, 0, "bad-result-type")
        col.violation("C11/result-dtype-or-shape", case,
                      "%s %r" % (tout, a.shape),
                      "%s %r" % (res.dtype, res.shape))
        return
    if preserve:
        if a.tobytes() != before or (
                base_before is not None and base.tobytes() != base_before):
            col.violation("C11/input-modified-despite-preserve_input", case,
                          "input bytes unchanged", "input bytes changed")
    flat = res.ravel(order="K" if layout == "fortran" else "C")
    if layout == "fortran":
        flat = np.ascontiguousarray(res).ravel()
    for pos, vi in enumerate(idx):
        v = values[vi]
        want = ex.convert(v, tout)
        got = flat[pos]
        cat = _category(v, tin, tout)
        ok = ex.same(got, want, tout)
        col.ev(1, 0 if (cat == "exact" and abs(v) <= 1) else 1,
               "ok/" + cat if ok else "wrong/" + cat)
        if not ok:
            c = dict(case)
            c["index"] = pos
            c["value"] = str(v)
            col.violation("C11/value/%s/%s->%s" % (cat, tin, tout), c,
                          repr(want), repr(got))
    if not idx:
        col.ev(1, 0, "ok/empty")


def units(tier):
    return [{"in": i, "out": o} for i in IN_TYPES for o in OUT_TYPES]


def space(tier):
    return {"pairs": len(IN_TYPES) * len(OUT_TYPES), "modes": 2,
            "layouts": len(LAYOUTS),
            "alphabet_sizes": {"%s->%s" % (i, o): len(alphabet(i, o))
                               for i in ("int8", "float64") for o in
                               ("uint8", "float32")}}


def run_unit(u):
    col = Collector()
    tin, tout = u["in"], u["out"]
    vals = alphabet(tin, tout)
    for preserve in (True, False):
        for layout in LAYOUTS:
            _evaluate(col, tin, tout, preserve, layout, vals)
        for v in vals:
            _evaluate(col, tin, tout, preserve, "contig", [v])
    col.sample(_case(tin, tout, False, "strided", vals[:6]))
    return col.result()


def replay(case):
    col = Collector()
    vals = [Fraction(v) for v in case["values"]]
    _evaluate(col, case["in"], case["out"], case["preserve"], case["layout"],
              vals)
    recs = col.records()
    if "index" in case:
        recs = [r for r in recs if r["case"].get("index") == case["index"]
                or "index" not in r["case"]]
    return recs
