"""C01 - volume conversion preserves every voxel of the input image.

E-INPUT, factorised: (A) value mapping product, (B) tiling product, (C)
encoding x storage product; each factor is swept in full with the others
held at representatives. Real NIfTI files are written with nibabel, the
function under the volume-to-precomputed CLI is called with the option dict
the CLI would build, and scale 0 is read back through a fresh accessor.
"""
import itertools
import json
import os
from fractions import Fraction

import numpy as np

from mc import pipeline
from mc.env import sandbox
from mc.oracle import exact_num as ex
from mc.runner import Collector

ID = "C01"
LEVEL = "exploration"
REQUIRED_CLASSES = ["value-ok", "tiling-ok", "storage-ok"]
RULE = ("(A) value mapping: input dtype {u8,i8,i16,u16,i32,u32,f32,f64} x "
        "header scaling {none,(2,0),(0.5,1),(1,-3),(0.25,0.5)} x "
        "ignore_scaling x {no min/max, 3 dyadic min/max pairs per target, a "
        "pair as wide as the output range with a non-zero minimum, "
        "input_max alone, a range ending at 0} x "
        "target dtype5 x {full, mmap} on a 12-voxel volume holding type "
        "limits, ties and out-of-range values; (B) tiling: shapes {1,2,3,5}^3 "
        "+ (7,1,2),(9,4,3) x chunk sizes {1^3,2^3,4^3,8^3,(2,4,1),(3,2,2)} x "
        "{3-D, 4-D x2, 4-D x3, RGB} x {full, mmap} with position-coded "
        "voxels; (C) {raw, cseg 8^3, cseg 2^3, jpeg} x {deep/flat x gzip/"
        "no-gzip, sharded (1,1,0), (0,0,0), (2,1,1), (1,0,1) raw/gzip} on 5 "
        "shapes; label volumes with the same label sets in every channel as "
        "cseg; conversions into a destination already holding another "
        "volume (same layout, either gzip setting before). "
        "A subset of (A) also runs through the console script main(argv); one file is converted three times in one process with other options (24 orders). Thorough also reads .nii.gz inputs. Quick: A without mmap duplicates on 3 input types per target, B "
        "with 3 chunk sizes on 14 shapes, C in full. Non-trivial: >= 2 "
        "chunks, or a dtype change, or a scaling applied.")
ASSUMPTIONS = [
    "expected value = r*slope+inter (unless ignored), then the min/max map "
    "(out_min + (v-in_min)*(out_max-out_min)/(in_max-in_min)), rounded half "
    "to even and clipped to the target type, computed in Fractions; slopes, "
    "intercepts and ranges are dyadic so nibabel's float path is exact",
    "JPEG targets are compared with the bound |error| <= 8 on smooth "
    "position codes",
]
HOW_TO_READ = ("case: NIfTI of 'shape'/'dtype'/'scaling' (x,y,z[,c]); info "
               "with target dtype, chunk size, encoding, sharding; "
               "volume_file_to_precomputed(file, dir, ignore_scaling, "
               "input_min, input_max, load_full_volume, options)")

IN_TYPES = ["uint8", "int8", "int16", "uint16", "int32", "uint32",
            "float32", "float64"]
OUT_TYPES = ["uint8", "uint16", "uint32", "uint64", "float32"]
SCALINGS = [None, (2.0, 0.0), (0.5, 1.0), (1.0, -3.0), (0.25, 0.5)]


def minmax_choices(out):
    """None, or (input_min, input_max); input_min None = option not given
    (documented default 0). The last-but-one pair has exactly the width of
    the output range (rescaling slope 1) with a non-zero minimum."""
    if out == "float32":
        return [None, (0.0, 256.0), (-0.5, 0.0), (100.0, 164.0),
                (1.0, 2.0), (None, 256.0), (-64.0, 0.0),
                (256.0, 0.0), (None, -64.0)]
    hi = ex.INT_RANGE[out][1]
    out_list = [None, (0.0, float(hi)), (0.0, float(2 * hi)),
                (3.0, 3.0 + hi / 2.0)]
    out_list.append((-64.0, 0.0))
    if out != "uint64":
        out_list.append((100.0, 100.0 + hi))
    out_list.append((None, float(2 * hi)))
    # a descending range (inverted contrast), given in full and through the
    # documented default of the lower bound
    if out != "uint64":     # (float64 rounding of 2^64-wide ranges: see
        out_list.append((255.0, 0.0))       # the tolerance in _eval_in)
        out_list.append((None, -64.0))
    return out_list


def value_alphabet(dtype):
    if ex.is_int_type(dtype):
        lo, hi = ex.INT_RANGE[dtype]
        vals = [lo, hi, 0, 1, 2, 3, 5, 255, 256, 257, hi - 1, lo + 1]
        return [v for v in vals if lo <= v <= hi][:12]
    return [0.0, 0.5, 1.5, 2.5, -0.5, 255.5, 254.5, 65535.5, 1e10, -1e10,
            3.25, 4294967296.0]


def sharding_dict(t, enc):
    return {"@type": "neuroglancer_uint64_sharded_v1", "hash": "identity",
            "minishard_bits": t[0], "shard_bits": t[1], "preshift_bits": t[2],
            "minishard_index_encoding": enc, "data_encoding": enc}


def build_input(case):
    """-> (array as stored (x,y,z[,c]) or structured RGB, exact stored
    values as an object array (C,Z,Y,X) of Fractions)"""
    shape = tuple(case["shape"])
    layout = case["layout"]
    dt = case["in_dtype"]
    nch = {"3d": 1, "4d2": 2, "4d3": 3, "rgb": 3}[layout]
    full = shape + ((nch,) if layout in ("4d2", "4d3") else ())
    n = int(np.prod(shape)) * nch
    if case["fill"] == "alphabet":
        alpha = value_alphabet(dt)
        flat = [alpha[i % len(alpha)] for i in range(n)]
    else:
        # position code: smooth, distinct within the sizes used
        flat = None
    if layout == "rgb":
        arr = np.zeros(shape, dtype=[("R", "u1"), ("G", "u1"), ("B", "u1")])
        x, y, z = np.meshgrid(*[np.arange(s) for s in shape], indexing="ij")
        for ci, name in enumerate("RGB"):
            arr[name] = (10 + 60 * ci + 4 * x + 9 * y + 17 * z) % 256
        exact = np.stack([arr[nm] for nm in "RGB"], axis=-1)
    else:
        if flat is not None:
            a = np.array(flat, dtype=dt).reshape(full)
        else:
            idx = np.meshgrid(*[np.arange(s) for s in full], indexing="ij")
            if case["encoding"] == "jpeg":
                # smooth and below 256 for every shape used: the JPEG bound
                # is calibrated on ramps without wrap-around
                v = 5 + 3 * idx[0] + 7 * idx[1] + 11 * idx[2]
                if len(full) == 4:
                    v = v + 40 * idx[3]
            elif case["fill"] == "labels":
                # label volume: few labels, the same label sets (and a
                # common background 0) in every channel
                v = ((idx[0] // 2 + 2 * (idx[1] // 2) + idx[2] // 2) % 3)
                if len(full) == 4:
                    v = (v + idx[3]) % 3
                v = v * 20000
            else:
                v = 10 + 4 * idx[0] + 9 * idx[1] + 17 * idx[2]
                if len(full) == 4:
                    v = v + 60 * idx[3]
            v = v + case.get("fill_shift", 0)
            if not ex.is_int_type(dt):
                v = v * 0.25
            a = v.astype(dt)
        arr = a
        exact = a if a.ndim == 4 else a[..., np.newaxis]
    # exact stored values as (C,Z,Y,X)
    exact = np.moveaxis(np.asarray(exact), (0, 1, 2, 3), (3, 2, 1, 0))
    return arr, exact, nch


def expected(case, exact):
    """(C,Z,Y,X) array of the target dtype computed exactly"""
    out = case["out_dtype"]
    sc = case["scaling"]
    slope, inter = (Fraction(1), Fraction(0))
    if sc is not None and not case["ignore_scaling"]:
        slope, inter = Fraction(sc[0]), Fraction(sc[1])
    mm = case["minmax"]
    if ex.is_int_type(out):
        omin, omax = [Fraction(v) for v in ex.INT_RANGE[out]]
    else:
        omin, omax = Fraction(0), Fraction(1)
    res = np.zeros(exact.shape, dtype=out)
    it = np.nditer(exact, flags=["multi_index", "refs_ok"])
    for v in it:
        val = ex.to_fraction(v.item()) * slope + inter
        if mm is not None:
            imin = Fraction(0 if mm[0] is None else mm[0])
            imax = Fraction(mm[1])
            val = omin + (val - imin) * (omax - omin) / (imax - imin)
        res[it.multi_index] = ex.convert(val, out)
    return res


def _eval(col, case):
    d = sandbox.fresh_dir("c01")
    try:
        if case.get("sequence"):
            _eval_sequence(col, case, d)
        else:
            _eval_in(col, case, d)
    finally:
        sandbox.drop_captured_exit_handlers()
        sandbox.rm(d)


SEQ_OPTS = {"plain": {}, "ignore": {"ignore_scaling": True},
            "minmax": {"minmax": [0.0, 510.0]},
            "mmap": {"mmap": True}}


def _eval_sequence(col, case, d):
    """ONE volume file converted several times in one process, each time
    with other options (into a fresh destination): every result is the one
    of its own options"""
    import nibabel
    base = base_case(kind="value", in_dtype="int16", out_dtype="uint16",
                     scaling=[2.0, 1.0], fill="alphabet")
    arr, _, _ = build_input(base)
    path = os.path.join(d, "shared.nii")
    img = nibabel.Nifti1Image(arr, np.diag([1.0, 1.0, 1.0, 1.0]),
                              dtype=arr.dtype)
    img.header.set_data_dtype(arr.dtype)
    img.header.set_slope_inter(2.0, 1.0)
    nibabel.save(img, path)
    for k, name in enumerate(case["sequence"]):
        sub = os.path.join(d, "step%d" % k)
        os.makedirs(sub)
        c = dict(base, **SEQ_OPTS[name])
        c["step"] = k
        c["sequence"] = case["sequence"]
        before = col.r["violation_count"]
        _eval_in(col, c, sub, src_path=path)
        if col.r["violation_count"] != before:
            return


def _eval_in(col, case, d, src_path=None):
    import nibabel

    from neuroglancer_scripts import volume_reader
    arr, exact, nch = build_input(case)
    path = src_path or os.path.join(
        d, "v.nii.gz" if case.get("gz") else "v.nii")
    if src_path is None:
        img = nibabel.Nifti1Image(arr, np.diag([1.0, 1.0, 1.0, 1.0]),
                                  dtype=arr.dtype)
        img.header.set_data_dtype(arr.dtype)
        if case["scaling"] is not None:
            img.header.set_slope_inter(*case["scaling"])
        if case.get("big_endian"):
            # the file stored in the other byte order
            img = nibabel.Nifti1Image(np.asarray(img.dataobj), None,
                                      img.header.as_byteswapped(">"))
            if case["scaling"] is not None:
                img.header.set_slope_inter(*case["scaling"])
        nibabel.save(img, path)
    dest = os.path.join(d, "ds")
    os.makedirs(dest)
    scale = {"key": "full", "size": list(case["shape"]),
             "chunk_sizes": [list(case["chunk"])],
             "resolution": [1e6, 1e6, 1e6], "voxel_offset": [0, 0, 0],
             "encoding": case["encoding"]}
    if case["encoding"] == "compressed_segmentation":
        scale["compressed_segmentation_block_size"] = case["block"]
    st = case["storage"]
    opts = {"flat": False, "gzip": True, "compresslevel": 9,
            "sharding": None}
    if st["kind"] == "file":
        opts["flat"], opts["gzip"] = st["flat"], st["gzip"]
    else:
        scale["sharding"] = sharding_dict(st["triple"], st["enc"])
        opts["sharding"] = ",".join(str(b) for b in st["triple"])
        opts["gzip"] = st["enc"] == "gzip"
    info = {"type": "image", "num_channels": nch,
            "data_type": case["out_dtype"], "scales": [scale]}
    with open(os.path.join(dest, "info"), "w") as f:
        json.dump(info, f)
    kind = case["kind"]
    grid = [-(-s // c) for s, c in zip(case["shape"], case["chunk"])]
    nontriv = 1 if (grid[0] * grid[1] * grid[2] >= 2
                    or case["in_dtype"] != case["out_dtype"]
                    or case["scaling"] or case["minmax"]) else 0
    mm = case["minmax"]
    sandbox.install_atexit_capture()
    prev = case.get("previous")
    if prev is not None:
        # the destination already holds an earlier conversion of another
        # volume of the same geometry (same layout, possibly other gzip
        # setting): the new conversion must replace it completely
        arr0, _, _ = build_input(dict(case, fill_shift=37))
        path0 = os.path.join(d, "v0.nii")
        img0 = nibabel.Nifti1Image(arr0, np.diag([1.0, 1.0, 1.0, 1.0]),
                                   dtype=arr0.dtype)
        img0.header.set_data_dtype(arr0.dtype)
        nibabel.save(img0, path0)
        opts0 = dict(opts)
        if st["kind"] == "file":
            opts0["gzip"] = prev["gzip"]
            if "flat" in prev:
                opts0["flat"] = prev["flat"]
        try:
            with sandbox.quiet(), np.errstate(all="ignore"):
                volume_reader.volume_file_to_precomputed(
                    path0, dest, ignore_scaling=False, input_min=None,
                    input_max=None, load_full_volume=True, options=opts0)
                sandbox.run_captured_exit_handlers()
        except Exception:
            col.ev(1, 0, "setup-failed")
            return
        sandbox.install_atexit_capture()
    try:
        if case.get("via_cli"):
            # the console script: argument parsing and forwarding included
            argv = [path, dest]
            if case["ignore_scaling"]:
                argv.append("--ignore-scaling")
            if mm is not None:
                if mm[0] is not None:
                    argv += ["--input-min", repr(mm[0])]
                argv += ["--input-max", repr(mm[1])]
            if case["mmap"]:
                argv.append("--mmap")
            if st["kind"] == "file":
                argv += (["--flat"] if st["flat"] else []) + (
                    [] if st["gzip"] else ["--no-gzip"])
            else:
                argv += ["--sharding", opts["sharding"]] + (
                    [] if opts["gzip"] else ["--no-gzip"])
            with np.errstate(all="ignore"):
                r = sandbox.run_cli("volume_to_precomputed", argv)
            if r.exc is not None:
                raise r.exc
            status, errs = r.status, list(r.exit_errors)
        else:
            with sandbox.quiet(), np.errstate(all="ignore"):
                status = volume_reader.volume_file_to_precomputed(
                    path, dest, ignore_scaling=case["ignore_scaling"],
                    input_min=None if mm is None else mm[0],
                    input_max=None if mm is None else mm[1],
                    load_full_volume=not case["mmap"], options=opts)
                errs = sandbox.run_captured_exit_handlers()
        if errs:
            raise errs[0]
        if status:
            raise RuntimeError("status %r" % (status,))
    except Exception as exc:
        col.ev(1, nontriv, kind + "-exception")
        tag = case["layout"] if case["layout"] == "rgb" else "non-rgb"
        opt = ("ignore_scaling" if case["ignore_scaling"] else
               "minmax" if mm else "plain")
        col.violation("C01/convert/exception/%s/%s/%s"
                      % (type(exc).__name__, tag, opt), case, "converted",
                      repr(exc)[:300])
        return
    want = expected(case, exact)
    try:
        pio = pipeline.open_dataset(dest)
        got = pipeline.read_scale(pio, 0)
    except Exception as exc:
        col.ev(1, nontriv, kind + "-unreadable")
        col.violation("C01/readback/exception/" + type(exc).__name__, case,
                      "every chunk readable", repr(exc)[:300])
        return
    if got.shape != want.shape or \
            got.dtype.newbyteorder("=") != want.dtype.newbyteorder("="):
        col.ev(1, nontriv, kind + "-bad")
        col.violation("C01/volume/shape-or-dtype", case,
                      "%s %r" % (want.dtype, want.shape),
                      "%s %r" % (got.dtype, got.shape))
        return
    if case["encoding"] == "jpeg":
        err = int(np.max(np.abs(got.astype(int) - want.astype(int))))
        good = err <= 8
        obs = "max |error| %d" % err
    elif case["out_dtype"] == "uint64" and mm is not None:
        # 2^64-1 is not representable in the float64 arithmetic the tool
        # documents, so no min/max pair maps exactly onto uint64: tolerance
        # of one unit of float64 precision (+-1)
        diff = np.abs(got.astype(object) - want.astype(object))
        tol = want.astype(object) // 2 ** 50 + 1
        good = bool(np.all(diff <= tol))
        obs = None if good else "max deviation %s" % max(diff.ravel())
    else:
        good = got.tobytes() == want.astype(got.dtype).tobytes()
        obs = None
        if not good and len(np.argwhere(got != want)) == 0:
            # equal values with other bytes: -0.0 where the exact reference
            # has 0.0 (a descending input range multiplies by a negative
            # slope); the statement is about values
            good = True
        if not good and obs is None:
            bad = np.argwhere(got != want)
            obs = "(c,z,y,x)=%s: got %r, expected %r (%d voxels differ)" % (
                bad[0].tolist(), got[tuple(bad[0])], want[tuple(bad[0])],
                len(bad))
    if not good:
        col.ev(1, nontriv, kind + "-bad")
        col.violation("C01/volume/wrong-voxels/" + kind, case,
                      "input value at the same position after the "
                      "documented mapping", obs)
        return
    col.ev(1, nontriv, kind + "-ok")


FILE_ST = {"kind": "file", "flat": False, "gzip": True}


def base_case(**kw):
    c = {"kind": "value", "shape": [3, 2, 2], "chunk": [2, 2, 2],
         "layout": "3d", "in_dtype": "uint8", "out_dtype": "uint8",
         "scaling": None, "ignore_scaling": False, "minmax": None,
         "mmap": False, "fill": "alphabet", "encoding": "raw",
         "storage": FILE_ST}
    c.update(kw)
    return c


def cases(tier):
    out = []
    # (A) value mapping
    for tin in IN_TYPES:
        for tout in OUT_TYPES:
            if tier == "quick" and tin not in (
                    {"uint8": ("uint8", "int16", "float32"),
                     "uint16": ("int16", "uint16", "float64"),
                     "uint32": ("int32", "uint32", "float32"),
                     "uint64": ("uint32", "int8", "float64"),
                     "float32": ("uint8", "float32", "float64")}[tout]):
                continue
            for sc in SCALINGS:
                for ign in (False, True):
                    if ign and sc is None:
                        continue
                    for mm in minmax_choices(tout):
                        for mmap in (False, True):
                            if tier == "quick" and mmap and (
                                    sc not in (None, (0.5, 1.0))
                                    or mm not in (None,
                                                  minmax_choices(tout)[2])):
                                continue
                            out.append(base_case(
                                kind="value", in_dtype=tin, out_dtype=tout,
                                scaling=list(sc) if sc else None,
                                ignore_scaling=ign,
                                minmax=list(mm) if mm else None, mmap=mmap))
    # the same value-mapping cases through the console script
    for c in list(out):
        if c["kind"] == "value" and c["in_dtype"] in ("int16", "uint8") \
                and c["out_dtype"] in ("uint8", "float32") \
                and c["scaling"] in (None, [0.5, 1.0]):
            c2 = dict(c)
            c2["via_cli"] = True
            out.append(c2)
    # input files stored big-endian
    for c in list(out):
        if c["kind"] == "value" and not c.get("via_cli") \
                and c.get("layout", "3d") != "rgb" \
                and c["scaling"] in (None, [0.5, 1.0]) \
                and (c["minmax"] is None or c["mmap"]):
            out.append(dict(c, big_endian=True))
    # one file converted three times in one process with other options
    for seq in itertools.permutations(("plain", "ignore", "minmax", "mmap"),
                                      3):
        out.append({"kind": "value", "sequence": list(seq)})
    # compressed input files (.nii.gz), thorough only
    if tier == "thorough":
        for c in list(out):
            if c["kind"] == "value" and "scaling" in c \
                    and not c.get("via_cli") \
                    and c["scaling"] in (None, [0.5, 1.0]) \
                    and c["minmax"] is None:
                c2 = dict(c)
                c2["gz"] = True
                out.append(c2)
    # RGB under the value-mapping options
    for ign in (False, True):
        for mm in (None, (0.0, 510.0), (100.0, 355.0), (10.0, 300.0),
                   (None, 510.0)):
            for mmap in (False, True):
                out.append(base_case(kind="value", layout="rgb",
                                     shape=[3, 2, 2], fill="position",
                                     ignore_scaling=ign,
                                     minmax=list(mm) if mm else None,
                                     mmap=mmap))
    # (B) tiling
    shapes = [s for s in itertools.product((1, 2, 3, 5), repeat=3)]
    shapes += [(7, 1, 2), (9, 4, 3)]
    chunks = [(1, 1, 1), (2, 2, 2), (4, 4, 4), (8, 8, 8), (2, 4, 1),
              (3, 2, 2)]
    if tier == "quick":
        shapes = [(1, 1, 1), (2, 1, 1), (1, 1, 5), (3, 3, 3), (5, 2, 3),
                  (2, 5, 1), (3, 5, 5), (5, 5, 5), (5, 1, 2), (1, 3, 2),
                  (2, 2, 2), (5, 3, 1), (7, 1, 2), (9, 4, 3)]
        chunks = [(2, 2, 2), (2, 4, 1), (8, 8, 8)]
    for sh in shapes:
        for cs in chunks:
            for layout in ("3d", "4d2", "4d3", "rgb"):
                for mmap in (False, True):
                    if tier == "quick" and mmap and layout in ("4d2",):
                        continue
                    out.append(base_case(
                        kind="tiling", shape=list(sh), chunk=list(cs),
                        layout=layout, mmap=mmap, fill="position",
                        in_dtype="uint8", out_dtype="uint8"))
    # (C) encoding x storage
    storages = [{"kind": "file", "flat": f, "gzip": g}
                for f in (False, True) for g in (True, False)]
    storages += [{"kind": "sharded", "triple": [1, 1, 0], "enc": "raw"},
                 {"kind": "sharded", "triple": [2, 1, 1], "enc": "gzip"},
                 {"kind": "sharded", "triple": [0, 0, 0], "enc": "raw"},
                 {"kind": "sharded", "triple": [1, 1, 0], "enc": "gzip"},
                 {"kind": "sharded", "triple": [0, 0, 0], "enc": "gzip"},
                 {"kind": "sharded", "triple": [1, 0, 1], "enc": "gzip"}]
    # grids 3x2x2, 1x1x1, 5x1x2, 4x2x1, 4x4x4: the writer's raster order
    # differs from the identifier order in several of them
    for sh in ((5, 4, 3), (2, 2, 2), (9, 1, 3), (8, 4, 2), (8, 8, 8)):
        for enc, block, dt in (("raw", None, "uint16"),
                               ("compressed_segmentation", [8, 8, 8],
                                "uint32"),
                               ("compressed_segmentation", [2, 2, 2],
                                "uint64"),
                               ("jpeg", None, "uint8")):
            for st in storages:
                for layout in (("3d", "4d3") if enc in ("raw", "jpeg")
                               else ("3d", "4d2")):
                    c = base_case(kind="storage", shape=list(sh),
                                  chunk=[2, 2, 2], layout=layout,
                                  in_dtype="uint8" if enc == "jpeg"
                                  else "uint16",
                                  out_dtype=dt, fill="position",
                                  encoding=enc, storage=st,
                                  mmap=(sh == (2, 2, 2)))
                    if block:
                        c["block"] = block
                    out.append(c)
    # label volumes (shared label sets across channels) as
    # compressed_segmentation, and conversions into a destination that
    # already holds another volume
    for sh in ((5, 4, 3), (8, 8, 8)):
        for block in ([8, 8, 8], [2, 2, 2]):
            for layout in ("3d", "4d2", "4d3"):
                for st in (storages[0], storages[3], storages[4]):
                    c = base_case(kind="storage", shape=list(sh),
                                  chunk=[4, 4, 4], layout=layout,
                                  in_dtype="uint16", out_dtype="uint32",
                                  fill="labels",
                                  encoding="compressed_segmentation",
                                  storage=st)
                    c["block"] = block
                    out.append(c)
    for st in storages:
        for prev_gzip in (True, False):
            if st["kind"] != "file" and not prev_gzip:
                continue
            for layout in ("3d", "4d2"):
                out.append(base_case(
                    kind="storage", shape=[5, 4, 3], chunk=[2, 2, 2],
                    layout=layout, in_dtype="uint16", out_dtype="uint16",
                    fill="position", encoding="raw", storage=st,
                    previous={"gzip": prev_gzip}))
    # an earlier conversion with the flat layout, then one with the default
    # (sub-directory) layout: the new chunks are the ones that are read
    # (the opposite order is not supported by the reader and not demanded)
    for g0 in (True, False):
        for g1 in (True, False):
            out.append(base_case(
                kind="storage", shape=[5, 4, 3], chunk=[2, 2, 2],
                layout="3d", in_dtype="uint16", out_dtype="uint16",
                fill="position", encoding="raw",
                storage={"kind": "file", "flat": False, "gzip": g1},
                previous={"gzip": g0, "flat": True}))
    return out


def units(tier):
    cs = cases(tier)
    per = 25
    return [{"cases": cs[i:i + per]} for i in range(0, len(cs), per)]


def space(tier):
    cs = cases(tier)
    return {"cases": len(cs),
            "by_kind": {k: sum(1 for c in cs if c.get("kind") == k)
                        for k in ("value", "tiling", "storage")}}


def run_unit(u):
    col = Collector()
    for case in u["cases"]:
        _eval(col, case)
    col.sample(u["cases"][0])
    return col.result()


def replay(case):
    col = Collector()
    _eval(col, case)
    return col.records()
