"""C09 - chunk identifiers and shard routing follow the specification.

E-INPUT: every grid up to N^3 with every position (three size/chunk
spellings per grid), a large-grid boundary lattice, a rejection lattice and
an identifier x bit-triple routing lattice, all against Python-int
references (mc/oracle/morton_spec.py).
"""
import itertools
import os

from mc.oracle import morton_spec as spec
from mc.runner import Collector, scratch_root

ID = "C09"
LEVEL = "exploration"
REQUIRED_CLASSES = ["code-ok", "reject-ok", "route-ok"]
RULE = ("units partition: (a) all grids gx,gy,gz <= N (N=8 quick, 12 "
        "thorough) x 3 spellings (chunk 1; chunk 3 exact; chunk 64 ragged) x "
        "ALL positions; (b) large-grid lattice, edges from {1,2,3,2^k-1,2^k,"
        "2^k+1: k in 5,21 (quick) / 5,10,20,21 (thorough)} with total bits "
        "<= 64 x boundary positions; "
        "(c) rejection probes (one past, two past, negative, off-lattice, "
        "non-integer) on every grid of (a) with edge <= 4 and of (b); (d) "
        "routing: identifier lattice x (preshift,minishard,shard) triples. "
        "A case is non-trivial when the identifier is non-zero (a), (b), the "
        "probe is a distinct rejected position (c), or the triple has a "
        "non-zero bit count (d); cases are distinct by construction.")
ASSUMPTIONS = [
    "Appendix A.1/A.3 of DESIGN.md restate the Neuroglancer specification "
    "correctly (identity hash, 64-bit identifiers)",
    "grids with more than 2^21+1 chunks per axis are outside the explored "
    "lattice",
]
HOW_TO_READ = ("case.kind=code: get_cmc(chunk coords of pos) on "
               "ShardVolumeSpec([c,c,c], size) must equal the compressed "
               "Morton code; kind=reject: the call must raise; kind=route: "
               "shard/minishard/file name for identifier id and bit triple")

SPECIAL_TRIPLES = [(0, 64, 0), (64, 0, 0), (0, 0, 64), (60, 3, 3),
                   (63, 1, 1), (10, 30, 30), (0, 0, 70), (1, 1, 62),
                   (0, 62, 2), (32, 32, 8), (0, 70, 0), (70, 0, 0)]


def _n(tier):
    return 8 if tier == "quick" else 12


def _edges(tier="thorough"):
    e = {1, 2, 3}
    for k in ((5, 21) if tier == "quick" else (5, 10, 20, 21)):
        e |= {2 ** k - 1, 2 ** k, 2 ** k + 1}
    return sorted(e)


def _triples(tier):
    if tier == "quick":
        t = list(itertools.product(range(4), range(4), range(10)))
    else:
        t = list(itertools.product(range(9), range(9), range(13)))
    return t + [s for s in SPECIAL_TRIPLES if s not in t]


def _ids():
    ids = set(range(1024))
    for k in range(10, 64):
        ids |= {2 ** k - 1, 2 ** k, 2 ** k + 1}
    ids |= {2 ** 64 - 1, 2 ** 64 - 2, 0x0123456789abcdef, 0xfedcba9876543210,
            0xaaaaaaaaaaaaaaaa, 0x5555555555555555}
    return sorted(ids)


def units(tier):
    n = _n(tier)
    u = []
    for gx in range(1, n + 1):
        for gy in range(1, n + 1):
            u.append({"kind": "small", "gx": gx, "gy": gy, "n": n})
    edges = _edges(tier)
    for ex in edges:
        u.append({"kind": "large", "ex": ex, "edges": edges})
    trip = _triples(tier)
    per = 25
    for i in range(0, len(trip), per):
        u.append({"kind": "route", "triples": trip[i:i + per]})
    return u


def space(tier):
    n = _n(tier)
    return {"small_grids": n ** 3, "spellings": 3,
            "small_positions": (n * (n + 1) // 2) ** 3,
            "large_edges": len(_edges(tier)), "triples": len(_triples(tier)),
            "routing_ids": len(_ids())}


# --------------------------------------------------------------------------
def _spellings(grid):
    """(size, chunk) spellings realising this grid."""
    yield [g for g in grid], 1
    yield [g * 3 for g in grid], 3
    yield [(g - 1) * 64 + 1 for g in grid], 64


def _coords(pos, size, c):
    out = []
    for p, s in zip(pos, size):
        out += [p * c, min((p + 1) * c, s)]
    return out


def _code_case(size, c, pos):
    return {"kind": "code", "size": list(size), "chunk": c, "pos": list(pos)}


def _eval_code(col, vs, size, c, pos, grid, seen=None):
    from neuroglancer_scripts.sharded_base import ShardVolumeSpec  # noqa
    want = spec.compressed_morton_code(pos, grid)
    case = _code_case(size, c, pos)
    try:
        got = vs.get_cmc(_coords(pos, size, c))
    except Exception as exc:
        col.ev(1, 1 if want else 0, "code-exception")
        col.violation("C09/morton/exception-on-valid-position/"
                      + type(exc).__name__, case, want, repr(exc))
        return
    try:
        goti = int(got)
    except Exception:
        goti = None
    col.ev(1, 1 if want else 0, "code-ok" if goti == want else "code-wrong")
    if goti != want:
        col.violation("C09/morton/wrong-identifier", case, want, repr(got))
    elif type(got).__name__ not in ("uint64", "int"):
        col.violation("C09/morton/identifier-type", case, "uint64",
                      type(got).__name__)
    if goti is not None:
        if goti >= (1 << spec.total_bits(grid)):
            col.violation("C09/morton/identifier-not-below-2^total-bits",
                          case, "< 2^%d" % spec.total_bits(grid), goti)
        if seen is not None:
            if goti in seen:
                col.violation("C09/morton/not-injective", case,
                              "distinct from %r" % (seen[goti],), goti)
            seen[goti] = list(pos)


def _reject_probes(grid, size, c):
    """positions that must be rejected: (tag, chunk_coords)"""
    base = [0, 0, 0]
    for ax in range(3):
        for tag, p in (("one-past", grid[ax]), ("two-past", grid[ax] + 1),
                       ("negative", -1)):
            pos = list(base)
            pos[ax] = p
            cc = []
            for a in range(3):
                cc += [pos[a] * c, pos[a] * c + c]
            yield tag, ax, cc
        if c > 1:
            cc = []
            for a in range(3):
                lo = 1 if a == ax else 0
                cc += [lo, lo + c]
            yield "off-lattice", ax, cc
            cc = []
            for a in range(3):
                lo = c / 2 if a == ax else 0      # c odd: non-integer
                cc += [lo, lo + c]
            if (c / 2) != int(c / 2):
                yield "non-integer", ax, cc
    # last valid position plus one on every axis at once
    cc = []
    for a in range(3):
        cc += [grid[a] * c, grid[a] * c + c]
    yield "one-past-all", 3, cc


def _eval_reject(col, vs, grid, size, c):
    for tag, ax, cc in _reject_probes(grid, size, c):
        case = {"kind": "reject", "size": list(size), "chunk": c,
                "coords": cc, "probe": tag, "axis": ax}
        try:
            got = vs.get_cmc(cc)
        except Exception:
            col.ev(1, 1, "reject-ok")
            continue
        col.ev(1, 1, "reject-accepted")
        col.violation("C09/reject/accepted-" + tag, case, "an exception",
                      repr(got))


def _vspec(size, c):
    from neuroglancer_scripts.sharded_base import ShardVolumeSpec
    return ShardVolumeSpec([c, c, c], [int(s) for s in size])


def _run_small(col, u):
    gx, gy, n = u["gx"], u["gy"], u["n"]
    for gz in range(1, n + 1):
        grid = (gx, gy, gz)
        for size, c in _spellings(grid):
            case0 = _code_case(size, c, (0, 0, 0))
            try:
                vs = _vspec(size, c)
            except Exception as exc:
                col.ev(1, 0, "spec-exception")
                col.violation("C09/volume-spec/exception/"
                              + type(exc).__name__, case0, "accepted",
                              repr(exc))
                continue
            if list(vs.grid_sizes) != list(grid):
                col.violation("C09/volume-spec/grid-shape", case0,
                              list(grid), list(vs.grid_sizes))
            seen = {}
            for pos in itertools.product(range(gx), range(gy), range(gz)):
                _eval_code(col, vs, size, c, pos, grid, seen)
            if max(grid) <= 4 or grid in ((8, 8, 8), (5, 1, 7), (8, 1, 1),
                                          (1, 8, 2)):
                _eval_reject(col, vs, grid, size, c)
    col.sample(_code_case([gx, gy, n], 1, (gx - 1, gy - 1, n - 1)))


def _boundary_positions(g):
    s = {0, 1, g - 2, g - 1}
    j = 1
    while (1 << j) <= g:
        s |= {(1 << j) - 1, 1 << j}
        j += 1
    return sorted(p for p in s if 0 <= p < g)


def _run_large(col, u):
    ex = u["ex"]
    edges = u["edges"]
    for ey in edges:
        for ez in edges:
            grid = (ex, ey, ez)
            if spec.total_bits(grid) > 64:
                continue
            for c, ragged in ((1, False), (64, True)):
                size = [(g - 1) * c + 1 if ragged else g * c for g in grid]
                try:
                    vs = _vspec(size, c)
                except Exception as exc:
                    col.ev(1, 0, "spec-exception")
                    col.violation("C09/volume-spec/exception/"
                                  + type(exc).__name__,
                                  _code_case(size, c, (0, 0, 0)), "accepted",
                                  repr(exc))
                    continue
                # thin out: full boundary product only on the x axis, the two
                # others use {0, 1, g-1, 2^j boundary nearest to g/2}
                px = _boundary_positions(ex)
                py = _thin(_boundary_positions(ey), ey)
                pz = _thin(_boundary_positions(ez), ez)
                for pos in itertools.product(px, py, pz):
                    _eval_code(col, vs, size, c, pos, grid)
                _eval_reject(col, vs, grid, size, c)
    col.sample(_code_case([ex, 3, 2 ** 10 + 1], 1, (ex - 1, 2, 2 ** 10)))


def _thin(ps, g):
    keep = {0, 1, g - 1, g - 2}
    half = [p for p in ps if p >= g // 2]
    if half:
        keep.add(half[0])
    low = [p for p in ps if p < g // 2]
    if low:
        keep.add(low[-1])
    return sorted(p for p in keep if 0 <= p < g)


def _route_case(i, t):
    return {"kind": "route", "id": i, "preshift": t[0], "minishard": t[1],
            "shard": t[2]}


def _eval_route(col, t, ids):
    import numpy as np

    from neuroglancer_scripts.sharded_base import (
        ShardSpec,
        ShardVolumeSpec,
    )
    from neuroglancer_scripts.sharded_file_accessor import ShardedScale
    pb, mb, sb = t
    nz = 1 if (pb or mb or sb) else 0
    try:
        sspec = ShardSpec(minishard_bits=mb, shard_bits=sb,
                          preshift_bits=pb)
        scale = ShardedScale(os.path.join(scratch_root(), "c09"), "k",
                             sspec, ShardVolumeSpec([1, 1, 1], [2, 2, 2]),
                             strategy="in memory")
    except Exception as exc:
        # rejecting a configuration is not a routing error (the statement
        # speaks about the values derived for accepted configurations)
        col.ev(len(ids), 0, "route-config-rejected/" + type(exc).__name__)
        return
    names = {}
    for i in ids:
        case = _route_case(i, t)
        ws, wm = spec.route(i, pb, mb, sb)
        try:
            cmc = np.uint64(i)
            gs = int(scale.get_shard_key(cmc))
            gm = int(scale.get_minishard_key(cmc))
        except Exception as exc:
            col.ev(1, nz, "route-exception")
            col.violation("C09/route/exception/" + type(exc).__name__, case,
                          [ws, wm], repr(exc))
            continue
        ok = True
        if gs != ws:
            ok = False
            col.violation("C09/route/shard-number", case, ws, gs)
        if gm != wm:
            ok = False
            col.violation("C09/route/minishard-number", case, wm, gm)
        if gs not in names and len(names) < 64:
            try:
                names[gs] = scale.get_shard(np.uint64(gs)).file_path.name
            except Exception as exc:
                names[gs] = None
                col.violation("C09/route/filename-exception/"
                              + type(exc).__name__, case,
                              spec.shard_file_stem(ws, sb) + ".shard",
                              repr(exc))
            else:
                want = spec.shard_file_stem(gs, sb) + ".shard"
                if names[gs] != want:
                    ok = False
                    col.violation("C09/route/shard-file-name", case, want,
                                  names[gs])
        col.ev(1, nz, "route-ok" if ok else "route-wrong")


def run_unit(u):
    col = Collector()
    if u["kind"] == "small":
        _run_small(col, u)
    elif u["kind"] == "large":
        _run_large(col, u)
    else:
        ids = _ids()
        for t in u["triples"]:
            _eval_route(col, tuple(t), ids)
        col.sample(_route_case(ids[-1], u["triples"][-1]))
    return col.result()


def replay(case):
    col = Collector()
    k = case["kind"]
    if k == "code":
        size, c, pos = case["size"], case["chunk"], case["pos"]
        grid = spec.grid_shape(size, [c] * 3)
        try:
            vs = _vspec(size, c)
        except Exception as exc:
            col.violation("C09/volume-spec/exception/" + type(exc).__name__,
                          case, "accepted", repr(exc))
            return col.records()
        if list(vs.grid_sizes) != list(grid):
            col.violation("C09/volume-spec/grid-shape", case, list(grid),
                          list(vs.grid_sizes))
        seen = {}
        # injectivity needs the other positions: replay the whole grid when
        # it is small, else only the position itself
        if grid[0] * grid[1] * grid[2] <= 4096:
            for p in itertools.product(*(range(g) for g in grid)):
                if list(p) != list(pos):
                    try:
                        seen[int(vs.get_cmc(_coords(p, size, c)))] = list(p)
                    except Exception:
                        pass
        _eval_code(col, vs, size, c, tuple(pos), grid, seen)
    elif k == "reject":
        vs = _vspec(case["size"], case["chunk"])
        try:
            got = vs.get_cmc(case["coords"])
        except Exception:
            pass
        else:
            col.violation("C09/reject/accepted-" + case["probe"], case,
                          "an exception", repr(got))
    elif k == "route":
        _eval_route(col, (case["preshift"], case["minishard"],
                          case["shard"]), [case["id"]])
    return col.records()
