"""C12 - file storage returns the latest stored bytes under every layout.

E-STATE: BFS over store_file / store_chunk histories on a real directory
(state = the complete directory tree, gzip members canonicalised); in every
state every name is fetched and probed through an accessor of EVERY
configuration and compared with a dict model; on-disk paths and gzip framing
are checked against the documented layout. Plus a path-confinement lattice.
"""
import gzip as gzip_mod
import hashlib
import os
import struct
import zlib

from mc.env import sandbox
from mc.runner import Collector

ID = "C12"
LEVEL = "model_checking"
REQUIRED_CLASSES = ["config-ok", "confine-refused"]
RULE = ("one unit = one writer configuration (FileAccessor flat/deep x gzip "
        "on/off x compresslevel 0/9, or the sharded accessor's file "
        "methods). BFS from the empty directory; transition = one store_file "
        "(3 names x 3 contents x overwrite T/F) or store_chunk (2 positions "
        "x 3 contents x overwrite T/F) with the MIME type fixed per name "
        "(a second family varies the MIME type of one name); states "
        "deduplicated on the full directory tree; depth 3 (quick) / 4 "
        "(thorough). In every state fetch_file / fetch_chunk / file_exists "
        "of every name through accessors of all 4 layouts are compared with "
        "a last-write-wins dict model, and the tree with the documented "
        "paths. Names family: every single name and ordered pair of 10 "
        "names with dots (also '..' inside a component), nested directories and colons, all looked up "
        "by readers of every layout, together with directory names that must "
        "not exist as files, and name/nested-name pairs on gzip layouts. "
        "Contents family: payloads starting with the gzip magic, gzip streams "
        "as payloads, payloads beyond 1 MiB and 2 MiB. URL family: 6 directory names (spaces, non-ASCII, %, +, nested) x "
        "6 spellings (path, file:// fully quoted, file:// with a literal '+', "
        "file://localhost, precomputed://file://, precomputed://path) for "
        "the writer x 6 for the reader. Factory sequences: every ordered pair of 7 "
        "option dictionaries given to two get_accessor_for_url() calls. Confinement: 14 name spellings x {store, fetch, exists} x "
        "both accessor classes with a sentinel sibling directory. "
        "Non-trivial states: >= 2 names present or a name overwritten.")
ASSUMPTIONS = [
    "file names ending in '.gz' occur only alone in their dataset (never "
    "next to the same name without the suffix): 'X.gz' is by design also "
    "the path of a compressed 'X'",
    "reference model: dict name -> bytes, last write wins, store without "
    "overwrite on an existing name fails and changes nothing",
    "a name keeps its MIME type for its lifetime in the main family (a "
    "chunk's type is fixed by the scale's encoding); the 'mixed-mime' family "
    "is reported under its own signatures",
]
HOW_TO_READ = ("case: accessor config + 'history' of ops [op, name|coords, "
               "content hex, mime, overwrite]; 'reader' = configuration of "
               "the accessor used for the failing observation")

KEY = "k"
FILE_NAMES = ["info", "d/f", "m/10:0"]
CHUNKS = [(0, 2, 0, 2, 0, 2), (2, 3, 0, 2, 0, 2)]
CONTENTS = [b"", b"x", b"yy" * 40]
N_BFS_CONTENTS = 3
# contents used by the "contents" family only: payloads that look like gzip
# streams, and payloads beyond 1 MiB / 2 MiB
CONTENTS += [b"\x1f\x8b" + bytes(range(30)),
             gzip_mod.compress(b"inner payload"),
             bytes((i * 7 + i // 255) % 256 for i in range(4099)) * 256
             + b"!",                                  # 1 MiB + 4 KiB + ...
             b"\x1f\x8b\x08" + b"z" * (2 * 1024 * 1024 + 5)]
MIME = {"info": "application/json", "d/f": "application/octet-stream",
        "m/10:0": "application/json"}
CHUNK_MIME = {CHUNKS[0]: "application/octet-stream", CHUNKS[1]: "image/jpeg"}
NO_COMPRESS = {"application/json", "image/jpeg", "image/png"}
LAYOUTS = [{"flat": f, "gzip": g} for f in (False, True)
           for g in (True, False)]


def writer_configs():
    out = []
    for lay in LAYOUTS:
        for lvl in ((0, 9) if lay["gzip"] else (9,)):
            c = dict(lay)
            c["compresslevel"] = lvl
            c["cls"] = "file"
            out.append(c)
    out.append({"cls": "sharded"})
    return out


def make_accessor(d, cfg):
    if cfg["cls"] == "file":
        from neuroglancer_scripts import accessor
        return accessor.get_accessor_for_url(
            d, {"flat": cfg["flat"], "gzip": cfg["gzip"],
                "compresslevel": cfg.get("compresslevel", 9)})
    from neuroglancer_scripts import sharded_file_accessor
    sandbox.install_atexit_capture()
    a = sharded_file_accessor.ShardedFileAccessor(d)
    sandbox.drop_captured_exit_handlers()
    return a


def menu(cfg, family):
    ops = []
    for n in FILE_NAMES:
        mimes = [MIME[n]]
        if family == "mixed-mime" and n == "d/f":
            mimes = ["application/octet-stream", "application/json"]
        for mi in mimes:
            for ci in range(N_BFS_CONTENTS):
                for ow in (False, True):
                    ops.append(["store_file", n, ci, mi, ow])
    if cfg["cls"] == "file":
        for c in CHUNKS:
            mimes = [CHUNK_MIME[c]]
            if family == "mixed-mime" and c == CHUNKS[0]:
                mimes = ["application/octet-stream", "image/jpeg"]
            for mi in mimes:
                for ci in range(N_BFS_CONTENTS):
                    for ow in (False, True):
                        ops.append(["store_chunk", list(c), ci, mi, ow])
    return ops


def name_of(op):
    return op[1] if op[0] == "store_file" else ("chunk",) + tuple(op[1])


def apply_op(acc, op):
    kind, target, ci, mime, ow = op
    if kind == "store_file":
        return acc.store_file(target, CONTENTS[ci], mime_type=mime,
                              overwrite=ow)
    return acc.store_chunk(CONTENTS[ci], KEY, tuple(target), mime_type=mime,
                           overwrite=ow)


def is_rfc1952(data):
    if len(data) < 18 or data[:2] != b"\x1f\x8b" or data[2] != 8:
        return None
    try:
        out = gzip_mod.decompress(data)
    except Exception:
        return None
    crc, isize = struct.unpack("<II", data[-8:])
    if crc != (zlib.crc32(out) & 0xffffffff) or isize != len(out) % 2 ** 32:
        return None
    return out


def tree(d):
    """sorted [(relpath, canonical content)] - the full state"""
    out = []
    for root, dirs, files in os.walk(d):
        rel = os.path.relpath(root, d)
        if not dirs and not files and rel != ".":
            out.append((rel + "/", b"<emptydir>"))
        for f in files:
            p = os.path.join(root, f)
            with open(p, "rb") as fh:
                data = fh.read()
            if f.endswith(".gz"):
                pl = is_rfc1952(data)
                data = (b"<gz>" + pl) if pl is not None else (b"<bad-gz>"
                                                              + data)
            out.append((os.path.relpath(p, d), data))
    out.sort()
    return out


def expected_path(cfg, name, mime):
    """documented on-disk path of a stored name"""
    if isinstance(name, tuple):
        c = name[1:]
        if cfg["flat"]:
            p = "%s/%d-%d_%d-%d_%d-%d" % ((KEY,) + tuple(c))
        else:
            p = "%s/%d-%d/%d-%d/%d-%d" % ((KEY,) + tuple(c))
    else:
        p = name
    if cfg["cls"] == "file" and cfg["gzip"] and mime not in NO_COMPRESS:
        p += ".gz"
    return p


def run_history(cfg, history, col, case_base, check=True):
    """replay a history in a fresh directory; returns (tree, model, mimes,
    overwritten flag) or None if a violation makes the state meaningless"""
    from neuroglancer_scripts.accessor import DataAccessError
    d = sandbox.fresh_dir("c12")
    try:
        acc = make_accessor(d, cfg)
        model, mimes = {}, {}
        overwritten = False
        for n, op in enumerate(history):
            name = name_of(op)
            before = tree(d) if name in model and not op[4] else None
            try:
                apply_op(acc, op)
                err = None
            except (DataAccessError, OSError) as exc:
                err = exc
            except Exception as exc:
                c = dict(case_base, history=history[:n + 1])
                col.violation("C12/store/unexpected-exception/"
                              + type(exc).__name__, c,
                              "success or DataAccessError/OSError",
                              repr(exc)[:200])
                return None
            if name in model and not op[4]:
                if err is None:
                    c = dict(case_base, history=history[:n + 1])
                    col.violation("C12/store/overwrite-not-refused/"
                                  + _mime_tag(mimes, name, op), c,
                                  "failure (name exists, overwrite=False)",
                                  "returned normally")
                    return None
                if tree(d) != before:
                    c = dict(case_base, history=history[:n + 1])
                    col.violation("C12/store/refused-overwrite-changed-the-"
                                  "tree", c, "tree unchanged", "tree changed")
                    return None
            else:
                if err is not None:
                    c = dict(case_base, history=history[:n + 1])
                    col.violation("C12/store/failed-unexpectedly/%s/%s"
                                  % (cfg["cls"], type(err).__name__), c,
                                  "stored", repr(err)[:200])
                    return None
                if name in model:
                    overwritten = True
                model[name] = CONTENTS[op[2]]
                mimes.setdefault(name, set()).add(op[3])
                mimes[(name, "last")] = op[3]
            # the writing handle itself must see the latest bytes after
            # every step (an accessor object may keep state between calls)
            if check or True:
                for nm2 in ([name] + [k for k in model if k != name]):
                    try:
                        if isinstance(nm2, tuple):
                            got = acc.fetch_chunk(KEY, nm2[1:])
                        else:
                            got = acc.fetch_file(nm2)
                        gerr = None
                    except (DataAccessError, OSError) as exc:
                        got, gerr = None, exc
                    except Exception as exc:
                        c = dict(case_base, history=history[:n + 1],
                                 reader="same-handle",
                                 name=list(nm2) if isinstance(nm2, tuple)
                                 else nm2)
                        col.violation("C12/fetch/unexpected-exception/"
                                      + type(exc).__name__, c,
                                      "bytes or DataAccessError",
                                      repr(exc)[:200])
                        return None
                    if nm2 in model and (gerr is not None
                                         or bytes(got) != model[nm2]):
                        c = dict(case_base, history=history[:n + 1],
                                 reader="same-handle",
                                 name=list(nm2) if isinstance(nm2, tuple)
                                 else nm2)
                        col.violation(
                            "C12/fetch/writing-handle-does-not-see-the-"
                            "latest-bytes/" + _mime_tag(mimes, nm2, op), c,
                            model[nm2].hex()[:60],
                            repr(gerr)[:200] if gerr else
                            bytes(got).hex()[:60])
                        return None
        t = tree(d)
        if check:
            observe(cfg, d, model, mimes, col, dict(case_base,
                                                    history=history),
                    names=case_base.get("names"))
        return t, model, overwritten
    finally:
        sandbox.rm(d)


def _mime_tag(mimes, name, op):
    seen = set(mimes.get(name, ())) | {op[3]}
    return "mixed-mime" if len(seen) > 1 else "same-mime"


def observe(cfg, d, model, mimes, col, case, names=None):
    from neuroglancer_scripts.accessor import DataAccessError
    mixed = any(len(v) > 1 for k, v in mimes.items()
                if not (isinstance(k, tuple) and k and k[-1] == "last"))
    tag = "mixed-mime" if mixed else "same-mime"
    readers = [cfg] if cfg["cls"] == "sharded" else [
        dict(lay, cls="file", compresslevel=9) for lay in LAYOUTS]
    names = list(names or FILE_NAMES) + ([("chunk",) + c for c in CHUNKS]
                                         if cfg["cls"] == "file" else [])
    for rc in readers:
        rd = make_accessor(d, rc)
        for name in names:
            c2 = dict(case, reader=rc, name=list(name) if isinstance(
                name, tuple) else name)
            try:
                if isinstance(name, tuple):
                    got = rd.fetch_chunk(KEY, name[1:])
                else:
                    got = rd.fetch_file(name)
                err = None
            except DataAccessError as exc:
                got, err = None, exc
            except OSError as exc:
                got, err = None, exc
            except Exception as exc:
                col.violation("C12/fetch/unexpected-exception/"
                              + type(exc).__name__, c2,
                              "bytes or DataAccessError", repr(exc)[:200])
                continue
            if name in model:
                if err is not None:
                    col.violation("C12/fetch/stored-name-not-found/" + tag,
                                  c2, model[name].hex()[:60],
                                  repr(err)[:200])
                elif bytes(got) != model[name]:
                    col.violation("C12/fetch/not-the-latest-bytes/" + tag,
                                  c2, model[name].hex()[:60],
                                  bytes(got).hex()[:60])
            elif err is None:
                col.violation("C12/fetch/never-stored-name-returned-data",
                              c2, "DataAccessError", bytes(got).hex()[:60])
            if not isinstance(name, tuple) and name not in DIR_NAMES:
                # (whether file_exists() of a *directory* name is False is
                # not fixed by the statement; only fetching it must fail)
                try:
                    ex = rd.file_exists(name)
                except Exception as exc:
                    col.violation("C12/exists/exception/"
                                  + type(exc).__name__, c2, name in model,
                                  repr(exc)[:200])
                    continue
                if bool(ex) != (name in model):
                    col.violation("C12/exists/wrong-answer", c2,
                                  name in model, ex)
    # documented paths (writer's configuration)
    if cfg["cls"] == "file":
        want = {}
        for name in model:
            want[expected_path(cfg, name, mimes[(name, "last")])] = name
        have = {p: data for p, data in tree(d) if not p.endswith("/")}
        for p, name in want.items():
            if p not in have:
                col.violation("C12/layout/not-at-documented-path/" + tag,
                              case, p, sorted(have))
            elif p == name:
                # a stored name that itself ends in ".gz", written where
                # compression does not apply: the bytes verbatim
                pl = is_rfc1952(model[name])
                canon = (b"<gz>" + pl) if pl is not None else (
                    b"<bad-gz>" + model[name])
                if not p.endswith(".gz"):
                    canon = model[name]
                if have[p] != canon:
                    col.violation("C12/layout/plain-file-content", case, p,
                                  have[p][:40].hex())
            elif p.endswith(".gz"):
                if have[p] != b"<gz>" + model[name]:
                    col.violation("C12/layout/gz-not-valid-rfc1952-of-"
                                  "stored-bytes", case, p,
                                  have[p][:40].hex())
            elif have[p] != model[name]:
                col.violation("C12/layout/plain-file-content", case, p,
                              have[p][:40].hex())
        for p in sorted(set(have) - set(want)):
            col.violation("C12/layout/unexpected-file/" + tag, case,
                          sorted(want), p)


def bfs(cfg, family, depth, col, max_states=30000):
    case_base = {"config": cfg, "family": family}
    ops = menu(cfg, family)
    seen = {}
    t0 = run_history(cfg, [], col, case_base)
    if t0 is None:
        return
    seen[_h(t0[0], t0[1])] = []
    frontier = [[]]
    states = 1
    transitions = 0
    nontrivial = 0
    maxd = 0
    capped = False
    before = col.r["violation_count"]
    for dpt in range(depth):
        nxt = []
        for hist in frontier:
            for op in ops:
                h2 = hist + [op]
                transitions += 1
                r = run_history(cfg, h2, col, case_base, check=False)
                if r is None:
                    continue
                k = _h(r[0], r[1])
                if k in seen:
                    continue
                seen[k] = h2
                states += 1
                maxd = max(maxd, len(h2))
                # the oracle runs once per distinct state
                run_history(cfg, h2, col, case_base, check=True)
                if len(r[1]) >= 2 or r[2]:
                    nontrivial += 1
                nxt.append(h2)
                if states >= max_states:
                    capped = True
                    break
            if capped:
                break
        if capped:
            break
        frontier = nxt
    col.r["states"] += states
    col.r["transitions"] += transitions
    col.r["traces"] += transitions
    col.r["max_depth"] = max(col.r["max_depth"], maxd)
    if capped:
        col.r["capped"] = True
    bad = col.r["violation_count"] - before
    col.ev(states, nontrivial, "config-ok" if not bad else "config-violating")


def _h(t, model):
    m = hashlib.sha256()
    m.update(repr(t).encode())
    m.update(repr(sorted((repr(k), v) for k, v in model.items())).encode())
    return m.hexdigest()


# ---- confinement ------------------------------------------------------------
def confinement_names(outside_abs):
    return [
        ("..", True), ("../x", True), ("a/../../x", True),
        ("../sentinel/s.txt", True), (outside_abs, True),
        ("a/../../sentinel/s.txt", True), ("../../x", True),
        ("a/./b", False), ("a//b", False), ("..x", False), ("x..", False),
        ("a:b", False), ("a/..b/c", False), ("a/../b", None),
        # outside names whose parent directories do not exist yet: refusing
        # them must not create those directories either
        ("../newdir/x", True), ("mesh/../../other/1:0", True),
        # a sibling directory whose name starts with the dataset's name
        ("../root_backup/s.txt", True), ("mesh/../../root_backup/new", True),
        ("../rootling", True),
        ("../../elsewhere/a/b", True),
        (os.path.join(os.path.dirname(os.path.dirname(outside_abs)),
                      "newabs", "deep", "f"), True),
    ]


def _snapshot(parent, skip):
    out = []
    for root, dirs, files in os.walk(parent):
        if os.path.abspath(root).startswith(os.path.abspath(skip)):
            continue
        for f in files:
            p = os.path.join(root, f)
            with open(p, "rb") as fh:
                out.append((os.path.relpath(p, parent), fh.read()))
        for dd in dirs:
            out.append((os.path.relpath(os.path.join(root, dd), parent) + "/",
                        b""))
    out.sort()
    return out


def _eval_confinement(col, cfg):
    parent = sandbox.fresh_dir("c12p")
    try:
        root = os.path.join(parent, "ds", "root")
        os.makedirs(root)
        sent = os.path.join(parent, "ds", "sentinel")
        os.makedirs(sent)
        with open(os.path.join(sent, "s.txt"), "wb") as f:
            f.write(b"SENTINEL")
        os.makedirs(os.path.join(parent, "ds", "root_backup"))
        with open(os.path.join(parent, "ds", "root_backup", "s.txt"),
                  "wb") as f:
            f.write(b"SENTINEL")
        outside_abs = os.path.join(parent, "ds", "sentinel", "s.txt")
        acc = make_accessor(root, cfg)
        for name, outside in confinement_names(outside_abs):
            for opname in ("store", "store-overwrite", "fetch", "exists"):
                case = {"kind": "confinement", "config": cfg, "name":
                        "<abs path of ds/newabs/deep/f>"
                        if name.endswith("/newabs/deep/f") else
                        name if name != outside_abs else "<abs path of "
                        "sentinel/s.txt>", "op": opname,
                        "resolves_outside": outside}
                before_out = _snapshot(parent, root)
                try:
                    if opname == "store":
                        r = acc.store_file(name, b"EVIL",
                                           mime_type="application/json")
                    elif opname == "store-overwrite":
                        r = acc.store_file(name, b"EVIL", overwrite=True,
                                           mime_type="application/json")
                    elif opname == "fetch":
                        r = acc.fetch_file(name)
                    else:
                        r = acc.file_exists(name)
                    refused = False
                except Exception as exc:
                    r, refused = exc, True
                after_out = _snapshot(parent, root)
                if after_out != before_out:
                    col.ev(1, 1, "confine-escaped")
                    col.violation("C12/confinement/wrote-outside-the-dataset"
                                  "-directory/" + cfg["cls"], case,
                                  "nothing outside the dataset directory "
                                  "changes", "sibling tree changed")
                    # restore the sentinel for the next probes
                    with open(os.path.join(sent, "s.txt"), "wb") as f:
                        f.write(b"SENTINEL")
                    continue
                if outside:
                    leaked = (not refused) and (
                        (opname == "fetch" and r == b"SENTINEL")
                        or (opname == "exists" and r is True)
                        or opname.startswith("store"))
                    if leaked:
                        col.ev(1, 1, "confine-escaped")
                        col.violation(
                            "C12/confinement/outside-name-not-refused/%s/%s"
                            % (cfg["cls"], opname.split("-")[0]), case,
                            "refused", repr(r)[:100])
                    elif not refused:
                        # e.g. exists('..') answering False: nothing leaked
                        col.ev(1, 1, "confine-harmless-answer")
                    else:
                        col.ev(1, 1, "confine-refused")
                else:
                    col.ev(1, 0, "confine-inside-name-" + (
                        "refused" if refused else "handled"))
        col.sample({"kind": "confinement", "config": cfg, "name": "../x",
                    "op": "store"})
    finally:
        sandbox.rm(parent)


# names with dots, nested directories and colons; names ending in ".gz"
# are left out: "X.gz" is by design where a compressed "X" is stored
NAME_ALPHA = ["labels", "labels.v2", "seg.left.frag", "seg.left",
              "a.b/c.d", "a.b/c", "mesh/7:0.x", "mesh/7:0", "v1.0/info",
              "noext", "notes..txt", "..hidden", "mesh/7:0..3", "a...b/c"]


GZ_NAMES = ["source/volume.nii.gz", "labels.json.gz"]

# directories that exist once a nested name or a chunk has been stored:
# they are not stored names (fetch_file must fail)
DIR_NAMES = ["a.b", "mesh", "v1.0", KEY]
# a name and a name nested under it (possible when the outer one is stored
# compressed, i.e. as "<name>.gz")
NESTED = [("mesh/7:0", "mesh"), ("mesh", "mesh/7:0"), ("a.b/c", "a.b")]


def contents_family(cfg, col):
    """payloads that start with the gzip magic number or are gzip streams
    themselves, and payloads of more than 1 MiB and 2 MiB: stored as a file
    (two MIME types) and as a chunk, overwritten once by another of them"""
    base = {"config": cfg, "family": "contents"}
    before = col.r["violation_count"]
    runs = 0
    extra = list(range(N_BFS_CONTENTS, len(CONTENTS)))
    for ci in extra:
        other = extra[(extra.index(ci) + 1) % len(extra)]
        hists = [[["store_file", "d/f", ci, "application/octet-stream",
                   False]],
                 [["store_file", "m/10:0", ci, "application/json", False]],
                 [["store_file", "d/f", ci, "application/octet-stream",
                   False],
                  ["store_file", "d/f", other, "application/octet-stream",
                   True]]]
        if cfg["cls"] == "file":
            hists.append([["store_chunk", list(CHUNKS[0]), ci,
                           "application/octet-stream", False]])
            hists.append([["store_chunk", list(CHUNKS[1]), ci, "image/jpeg",
                           False]])
        for h in hists:
            run_history(cfg, h, col, base)
            runs += 1
    col.r["states"] += runs
    col.r["transitions"] += runs
    col.r["traces"] += runs
    bad = col.r["violation_count"] - before
    col.ev(runs, runs, "contents-ok" if not bad else "contents-violating")


def names_family(cfg, col):
    """every single name (2 MIME types) and every ordered pair of distinct
    names from NAME_ALPHA stored through one configuration; all ten names
    are then looked up by readers of every configuration (a name that was
    never stored must not exist nor return data)"""
    base = {"config": cfg, "family": "names",
            "names": NAME_ALPHA + DIR_NAMES}
    before = col.r["violation_count"]
    runs = 0
    run_history(cfg, ([["store_chunk", list(CHUNKS[0]), 2,
                        "application/octet-stream", False]]
                      if cfg["cls"] == "file" else []) + [
                          ["store_file", "mesh/7:0", 1,
                           "application/octet-stream", False]], col, base)
    runs += 1
    if cfg.get("gzip"):
        for n1, n2 in NESTED:
            run_history(cfg, [
                ["store_file", n1, 2, "application/octet-stream", False],
                ["store_file", n2, 1, "application/octet-stream", False]],
                col, base)
            runs += 1
    for n1 in NAME_ALPHA:
        for mime in ("application/octet-stream", "application/json"):
            run_history(cfg, [["store_file", n1, 2, mime, False]], col, base)
            runs += 1
        for n2 in NAME_ALPHA:
            if n2 != n1:
                run_history(cfg, [
                    ["store_file", n1, 2, "application/octet-stream", False],
                    ["store_file", n2, 1, "application/octet-stream",
                     False]], col, base)
                runs += 1
    # names that themselves end in ".gz", alone in their dataset (no name
    # "X" next to "X.gz"): what was stored must come back under that name
    for n1 in GZ_NAMES:
        for mime in ("application/octet-stream", "application/json",
                     "image/jpeg"):
            for ci in (2, 1):
                run_history(cfg, [["store_file", n1, ci, mime, False]], col,
                            dict(base, names=[n1]))
                runs += 1
    col.r["states"] += runs
    col.r["transitions"] += 2 * runs
    col.r["traces"] += runs
    bad = col.r["violation_count"] - before
    col.ev(runs, runs, "names-ok" if not bad else "names-violating")


FACTORY_OPTS = [{}, {"flat": True}, {"gzip": False},
                {"flat": True, "gzip": False, "compresslevel": 1},
                {"gzip": True, "compresslevel": 1}, {"flat": False},
                {"compresslevel": 0}]


def _eval_factory_sequences(col):
    """get_accessor_for_url() called twice in one process with two option
    dictionaries (every ordered pair of 7): the second accessor stores
    where ITS options say (missing keys = documented defaults: deep layout,
    gzip on), whatever the first call was given"""
    from neuroglancer_scripts import accessor
    root = sandbox.fresh_dir("c12f")
    try:
        n = 0
        for oa in FACTORY_OPTS:
            for ob in FACTORY_OPTS:
                n += 1
                da = os.path.join(root, "a%d" % n)
                db = os.path.join(root, "b%d" % n)
                os.makedirs(da)
                os.makedirs(db)
                case = {"kind": "factory-sequence", "first_options": oa,
                        "second_options": ob}
                try:
                    a = accessor.get_accessor_for_url(da, dict(oa))
                    a.store_chunk(b"AAAA", KEY, CHUNKS[0])
                    b = accessor.get_accessor_for_url(db, dict(ob))
                    b.store_chunk(b"BBBB", KEY, CHUNKS[0])
                    b.store_file("d/f", b"FILE")
                except Exception as exc:
                    col.ev(1, 1, "factory-bad")
                    col.violation("C12/factory-sequence/exception/"
                                  + type(exc).__name__, case, "stored",
                                  repr(exc)[:200])
                    continue
                eff = {"cls": "file", "flat": ob.get("flat", False),
                       "gzip": ob.get("gzip", True)}
                want = sorted([
                    expected_path(eff, ("chunk",) + CHUNKS[0],
                                  "application/octet-stream"),
                    expected_path(eff, "d/f", "application/octet-stream")])
                have = sorted(os.path.relpath(os.path.join(r, f), db)
                              for r, _, fs in os.walk(db) for f in fs)
                if have != want:
                    col.ev(1, 1, "factory-bad")
                    col.violation("C12/factory-sequence/second-accessor-"
                                  "uses-other-options", case, want, have)
                else:
                    col.ev(1, 1, "factory-ok")
                sandbox.rm(da)
                sandbox.rm(db)
        col.sample({"kind": "factory-sequence",
                    "first_options": {"flat": True}, "second_options": {}})
    finally:
        sandbox.rm(root)


DATASET_DIRS = ["plain", "my data", "\u00fc-dir", "100%", "a+b", "x y/z"]


def url_spellings(path):
    from urllib.parse import quote
    q = quote(path)
    return [("path", path), ("file-url", "file://" + q),
            ("file-url-literal-plus", "file://" + quote(path, safe="/+")),
            ("file-localhost", "file://localhost" + q),
            ("precomputed-file", "precomputed://file://" + q),
            ("precomputed-path", "precomputed://" + path)]


def _eval_urls(col):
    """a dataset directory named through every URL spelling the accessor
    factory accepts (plain path, file://, precomputed:// prefixes, with
    percent-escapes where the directory name needs them): what one spelling
    stores, every other spelling fetches, and the files are in that
    directory and nowhere else"""
    from neuroglancer_scripts import accessor
    root = sandbox.fresh_dir("c12u")
    cwd = os.getcwd()
    try:
        os.chdir(root)          # stray relative paths stay in the sandbox
        n = 0
        for dname in DATASET_DIRS:
            for wi in range(len(url_spellings("/x"))):
                n += 1
                holder = os.path.join(root, "h%d" % n)
                d = os.path.join(holder, dname)
                os.makedirs(d)
                sp = url_spellings(d)
                wname, wurl = sp[wi]
                case = {"kind": "urls", "directory": dname,
                        "writer_spelling": wname}
                try:
                    w = accessor.get_accessor_for_url(
                        wurl, {"flat": True, "gzip": False})
                    w.store_file("info", b"{}", mime_type="application/json")
                    w.store_chunk(b"DATA", KEY, CHUNKS[0])
                except Exception as exc:
                    col.ev(1, 1, "urls-bad")
                    col.violation("C12/urls/store-failed/" + type(
                        exc).__name__, case, "stored", repr(exc)[:200])
                    continue
                want = sorted(["info", "%s/%d-%d_%d-%d_%d-%d" % (
                    (KEY,) + CHUNKS[0])])
                have = sorted(
                    os.path.relpath(os.path.join(r, f), d)
                    for r, _, fs in os.walk(d) for f in fs)
                stray = sorted(
                    os.path.relpath(os.path.join(r, f), root)
                    for r, _, fs in os.walk(root) for f in fs
                    if not os.path.join(r, f).startswith(d + os.sep)
                    and os.path.join(r, f).startswith(holder + os.sep)
                    or not os.path.join(r, f).startswith(
                        os.path.join(root, "h")))
                ok = True
                if have != want or stray:
                    ok = False
                    col.violation("C12/urls/not-stored-in-the-named-"
                                  "directory", case, want,
                                  {"in_directory": have,
                                   "elsewhere": stray[:5]})
                for rname, rurl in sp:
                    c2 = dict(case, reader_spelling=rname)
                    try:
                        r = accessor.get_accessor_for_url(
                            rurl, {"flat": True, "gzip": False})
                        got = (bytes(r.fetch_file("info")),
                               bytes(r.fetch_chunk(KEY, CHUNKS[0])),
                               r.file_exists("info"))
                    except Exception as exc:
                        ok = False
                        col.violation("C12/urls/other-spelling-cannot-read/"
                                      + type(exc).__name__, c2,
                                      "the stored bytes", repr(exc)[:200])
                        continue
                    if got != (b"{}", b"DATA", True):
                        ok = False
                        col.violation("C12/urls/other-spelling-reads-other-"
                                      "data", c2, "the stored bytes",
                                      repr(got)[:100])
                col.ev(1, 1, "urls-ok" if ok else "urls-bad")
                sandbox.rm(holder)
        col.sample({"kind": "urls", "directory": "my data",
                    "writer_spelling": "file-url"})
    finally:
        os.chdir(cwd)
        sandbox.rm(root)


def units(tier):
    depth = 3 if tier == "quick" else 4
    u = []
    for cfg in writer_configs():
        u.append({"kind": "bfs", "config": cfg, "family": "same-mime",
                  "depth": depth})
        u.append({"kind": "bfs", "config": cfg, "family": "mixed-mime",
                  "depth": depth - 1})
    for cfg in writer_configs():
        u.append({"kind": "names", "config": cfg})
        u.append({"kind": "contents", "config": cfg})
    u.append({"kind": "confinement"})
    u.append({"kind": "urls"})
    u.append({"kind": "factory-sequences"})
    return u


def space(tier):
    return {"writer_configs": len(writer_configs()), "families": 2,
            "menu_sizes": {"file": len(menu(writer_configs()[0],
                                            "same-mime")),
                           "sharded": len(menu({"cls": "sharded"},
                                               "same-mime"))},
            "reader_configs_per_state": 4,
            "confinement_probes": 14 * 4 * 2}


def run_unit(u):
    col = Collector()
    if u["kind"] == "factory-sequences":
        _eval_factory_sequences(col)
    elif u["kind"] == "urls":
        _eval_urls(col)
    elif u["kind"] == "contents":
        contents_family(u["config"], col)
        col.sample({"config": u["config"], "family": "contents",
                    "history": [["store_file", "d/f", 3,
                                 "application/octet-stream", False]]})
    elif u["kind"] == "names":
        names_family(u["config"], col)
        col.sample({"config": u["config"], "family": "names",
                    "history": [["store_file", "seg.left.frag", 2,
                                 "application/octet-stream", False]]})
    elif u["kind"] == "bfs":
        bfs(u["config"], u["family"], u["depth"], col)
        col.sample({"config": u["config"], "family": u["family"],
                    "history": menu(u["config"], u["family"])[:2]})
    else:
        for cfg in ({"cls": "file", "flat": False, "gzip": True,
                     "compresslevel": 9},
                    {"cls": "file", "flat": True, "gzip": False,
                     "compresslevel": 9},
                    {"cls": "sharded"}):
            _eval_confinement(col, cfg)
    return col.result()


def replay(case):
    col = Collector()
    if case.get("kind") == "factory-sequence":
        _eval_factory_sequences(col)
        return [r for r in col.records()
                if r["case"].get("first_options") == case["first_options"]
                and r["case"].get("second_options")
                == case["second_options"]]
    if case.get("kind") == "urls":
        _eval_urls(col)
        return [r for r in col.records()
                if r["case"].get("directory") == case["directory"]
                and r["case"].get("writer_spelling")
                == case["writer_spelling"]
                and r["case"].get("reader_spelling")
                == case.get("reader_spelling")]
    if case.get("kind") == "confinement":
        _eval_confinement(col, case["config"])
        return [r for r in col.records()
                if r["case"].get("name") == case["name"]
                and r["case"].get("op") == case["op"]]
    cfg = case["config"]
    base = {"config": cfg, "family": case.get("family")}
    if case.get("names"):
        base["names"] = case["names"]
    hist = case["history"]
    # intermediate states first (a store-level violation may be earlier)
    for n in range(1, len(hist)):
        if run_history(cfg, hist[:n], col, base, check=False) is None:
            return col.records()
    run_history(cfg, hist, col, base, check=True)
    recs = col.records()
    if "reader" in case:
        recs = [r for r in recs if r["case"].get("reader") == case["reader"]
                and r["case"].get("name") == case["name"]] or recs
    return recs
