"""C19 - all-in-one conversion equals the step-by-step pipeline; steps are
repeatable; success status means everything was written and is readable.

E-STATE over programs: BFS over sequences of the real commands (run
in-process through their main(argv), followed by the exit handlers of
sharded accessors) on a scratch workspace; a state is the canonical content
of the three dataset directories (file listing, parsed JSON files, decoded
arrays of every scale); failing commands are transitions too.
"""
import hashlib
import json
import os
import shutil

import numpy as np

from mc import pipeline
from mc.env import sandbox
from mc.runner import Collector

ID = "C19"
LEVEL = "model_checking"
REQUIRED_CLASSES = ["pair-ok", "slices-ok"]
RULE = ("one unit = one (volume, option set, variant): volumes (130,3,2) "
        "uint8, (260,2,1) uint8 [3 scales], (130,70,1) uint16 with 1x1x4 mm "
        "voxels, (130,2,2) float32 with header slope 2, (130,3,2) uint16 "
        "labels converted as segmentation / compressed_segmentation, "
        "(130,20,40) and (40,130,20) uint8 with anisotropic voxels, (20,20,20) "
        "uint8 cut into 3x3x3 chunks of 8^3 (--target-chunk-size 8; sharded "
        "and flat option sets, no all-in-one counterpart); "
        "downscaling method {explicit, auto}; option sets {default, --flat --no-gzip, --no-gzip, "
        "--sharding 1,1,0, value mapping (--ignore-scaling --input-min "
        "--input-max; --input-max alone)}; downscaling {explicit, auto, average with "
        "--outside-value 200 and 0}; menu = generate-info, generate-scales-info, "
        "volume-to-precomputed, compute-scales, all-in-one pyramid (own "
        "directory), prepare + convert-chunks (third directory), "
        "scale-stats, with --mmap variants; BFS to depth 6 (quick) / 9 "
        "(thorough) with states deduplicated on the canonical workspace "
        "content. Oracles: all-in-one state == step-by-step state; c;c == c "
        "for every data-writing command; status 0 implies complete and "
        "readable output; scale-stats changes nothing; the slice-stack workflow (same voxels "
        "as PNG slices) gives the same dataset as the volume workflow. "
        "Non-trivial states: "
        "at least one dataset holds decoded chunks.")
ASSUMPTIONS = [
    "commands are run in-process through main(argv) exactly as the console "
    "scripts would (SystemExit / uncaught exception = exit status, then the "
    "atexit handlers of sharded accessors)",
    "the all-in-one command has no --sharding option, so the equality with "
    "the step-by-step pipeline is checked for the unsharded option sets",
]
HOW_TO_READ = ("case: volume + options + 'history' = list of command names "
               "(see MENU in mc/props/C19.py) applied to an empty workspace "
               "with directories main/, allinone/, converted/")

VOLUMES = {
    "u8-130x3x2": {"shape": (130, 3, 2), "dtype": "uint8", "vox": (1, 1, 1)},
    "u8-260x2x1": {"shape": (260, 2, 1), "dtype": "uint8", "vox": (1, 1, 1)},
    "u16-aniso": {"shape": (130, 70, 1), "dtype": "uint16",
                  "vox": (1, 1, 4)},
    "f32-slope": {"shape": (130, 2, 2), "dtype": "float32",
                  "vox": (1, 1, 1), "slope": (2.0, 0.0)},
    "u8-slope": {"shape": (130, 3, 2), "dtype": "uint8",
                 "vox": (1, 1, 1), "slope": (2.0, 1.0)},
    "u16-labels": {"shape": (130, 3, 2), "dtype": "uint16",
                   "vox": (1, 1, 1), "segmentation": True},
    "u8-aniso-z": {"shape": (130, 20, 40), "dtype": "uint8",
                   "vox": (1, 1, 4)},
    "u8-aniso-x": {"shape": (40, 130, 20), "dtype": "uint8",
                   "vox": (4, 1, 2)},
    # 3x3x3 chunks of 8^3 (generate-scales-info --target-chunk-size 8): the
    # grid is not a power of two along any axis; no all-in-one counterpart
    "u8-20cube-tcs8": {"shape": (20, 20, 20), "dtype": "uint8",
                       "vox": (1, 1, 1), "tcs": 8},
}
METHODS = ("explicit", "auto", "average-outside", "average-outside-zero")
OPTSETS = {"default": [], "flat-nogzip": ["--flat", "--no-gzip"],
           "nogzip": ["--no-gzip"], "sharded": [], "valuemap": [],
           "valuemap-max": [], "valuemap-desc": [], "valuemap-negmax": [],
           "valuemap-ignore": []}
# value-mapping options given to every command that reads the volume
VALUEMAP = ["--ignore-scaling", "--input-min", "10", "--input-max", "300"]
VALUEMAP_MAX = ["--input-max", "300"]      # input-min left at its default


def make_volume(path, v):
    shape = v["shape"]
    n = int(np.prod(shape))
    x, y, z = np.meshgrid(*[np.arange(s) for s in shape], indexing="ij")
    if v.get("segmentation"):
        arr = ((x // 9) * 7 + y * 3 + z + 1) % 23
    else:
        arr = (x * 3 + y * 11 + z * 29) % 200 + 5
    arr = arr.astype(v["dtype"])
    aff = np.diag(list(v["vox"]) + [1.0])
    pipeline.write_nifti(path, arr, aff, *(v.get("slope") or (None, None)))
    return n


def commands(vol, optset, ws, mmap, method="explicit"):
    """name -> (script, argv, data-writing target dir or None)"""
    v = VOLUMES[vol]
    nii = os.path.join(ws, "v.nii")
    D, D2, D3 = (os.path.join(ws, "main"), os.path.join(ws, "allinone"),
                 os.path.join(ws, "converted"))
    o = OPTSETS[optset]
    shard = ["--sharding", "1,1,0"] if optset == "sharded" else []
    mm = ["--mmap"] if mmap else []
    seg = v.get("segmentation")
    typ = (["--type", "segmentation", "--encoding",
            "compressed_segmentation"] if seg else [])
    if method == "auto":
        dsm = []            # "auto": average for images, stride for labels
    elif method == "average-outside":
        dsm = ["--downscaling-method", "average", "--outside-value", "200"]
    elif method == "average-outside-zero":
        dsm = ["--downscaling-method", "average", "--outside-value", "0"]
    else:
        dsm = ["--downscaling-method", "majority" if seg else "stride"]
    vm = (VALUEMAP if optset == "valuemap" else
          VALUEMAP_MAX if optset == "valuemap-max" else
          # a descending range (inverted contrast) and its spelling through
          # the default lower bound
          ["--input-min", "300", "--input-max", "0"]
          if optset == "valuemap-desc" else
          ["--input-max", "-50"] if optset == "valuemap-negmax" else
          ["--ignore-scaling"] if optset == "valuemap-ignore" else [])
    tcs = (["--target-chunk-size", str(v["tcs"])] if v.get("tcs") else [])
    cmds = {
        "gen-info": ("volume_to_precomputed",
                     ["--generate-info", nii, D] + shard + vm, None),
        "gen-scales": ("generate_scales_info",
                       [os.path.join(D, "info_fullres.json"), D] + typ
                       + tcs, None),
        "vol2pre": ("volume_to_precomputed",
                    [nii, D] + o + shard + mm + vm, D),
        "compute-scales": ("compute_scales", [D] + o + dsm, D),
        "scale-stats": ("scale_stats", [D], None),
        "prep-convert": ("generate_scales_info",
                         [os.path.join(D, "info_fullres.json"), D3]
                         + (["--type", "segmentation"] if seg
                            else ["--encoding", "raw"]) + tcs, None),
        "convert": ("convert_chunks", [D, D3] + o, D3),
    }
    if optset != "sharded" and not v.get("tcs"):
        cmds["pyramid"] = ("volume_to_precomputed_pyramid",
                           [nii, D2] + o + typ + dsm + mm + vm, D2)
    return cmds


DATA_WRITING = ("vol2pre", "compute-scales", "pyramid", "convert")


def dataset_canon(d):
    """canonical content of one dataset directory"""
    if not os.path.isdir(d):
        return None
    files = []
    for root, dirs, fs in os.walk(d):
        for f in fs:
            files.append(os.path.relpath(os.path.join(root, f), d))
    files.sort()
    out = {"files": files}
    for name in ("info", "info_fullres.json", "transform.json"):
        p = os.path.join(d, name)
        if os.path.exists(p):
            try:
                with open(p) as f:
                    out[name] = json.load(f)
            except Exception as exc:
                out[name] = "unparseable: " + type(exc).__name__
    scales = None
    if isinstance(out.get("info"), dict):
        scales = []
        try:
            pio = pipeline.open_dataset(d)
            sandbox.drop_captured_exit_handlers()
        except Exception as exc:
            pio = None
            scales = "cannot open: " + type(exc).__name__
        if pio is not None:
            for i in range(len(out["info"].get("scales", []))):
                try:
                    a = pipeline.read_scale(pio, i)
                    scales.append([str(a.dtype), list(a.shape),
                                   hashlib.sha256(a.tobytes()).hexdigest()])
                except Exception as exc:
                    scales.append("unreadable: " + type(exc).__name__)
    out["scales"] = scales
    return out


def ws_canon(ws):
    return {k: dataset_canon(os.path.join(ws, k))
            for k in ("main", "allinone", "converted")}


def canon_key(c):
    return hashlib.sha256(json.dumps(c, sort_keys=True,
                                     default=str).encode()).hexdigest()


def complete(dc, upto=None):
    """is every scale (or scale 0 only) of the dataset decoded?"""
    if not dc or not isinstance(dc.get("scales"), list) or not dc["scales"]:
        return False
    sc = dc["scales"] if upto is None else dc["scales"][:upto]
    return all(isinstance(s, list) for s in sc)


def snapshot(ws, store, key):
    dst = os.path.join(store, key)
    if not os.path.exists(dst):
        os.makedirs(dst)
        for k in ("main", "allinone", "converted"):
            if os.path.isdir(os.path.join(ws, k)):
                shutil.copytree(os.path.join(ws, k), os.path.join(dst, k))
    return dst


def restore(ws, snap):
    for k in ("main", "allinone", "converted"):
        p = os.path.join(ws, k)
        if os.path.isdir(p):
            shutil.rmtree(p)
        if os.path.isdir(os.path.join(snap, k)):
            shutil.copytree(os.path.join(snap, k), p)


def apply(cmds, name):
    script, argv, _ = cmds[name]
    with np.errstate(all="ignore"):
        return sandbox.run_cli(script, argv)


def responsibility_ok(name, r, canon):
    """oracle (iii): status 0 => output complete and readable. Returns None
    or a description"""
    if not r.ok:
        return None
    if name == "gen-info":
        m = canon["main"]
        if not m or not isinstance(m.get("info_fullres.json"), dict) \
                or not isinstance(m.get("transform.json"), list):
            return "info_fullres.json / transform.json missing or invalid"
    elif name == "gen-scales":
        m = canon["main"]
        if not m or not isinstance(m.get("info"), dict) \
                or not m["info"].get("scales"):
            return "info missing or without scales"
    elif name == "prep-convert":
        m = canon["converted"]
        if not m or not isinstance(m.get("info"), dict):
            return "destination info missing"
    elif name == "vol2pre":
        if not complete(canon["main"], upto=1):
            return "scale 0 incomplete or unreadable: %r" % (
                canon["main"] and canon["main"].get("scales"),)
    elif name == "compute-scales":
        if not complete(canon["main"]):
            return "some scale incomplete or unreadable: %r" % (
                canon["main"] and canon["main"].get("scales"),)
    elif name == "pyramid":
        if not complete(canon["allinone"]):
            return "all-in-one output incomplete: %r" % (
                canon["allinone"] and canon["allinone"].get("scales"),)
    elif name == "convert":
        if not complete(canon["converted"]):
            return "converted dataset incomplete: %r" % (
                canon["converted"] and canon["converted"].get("scales"),)
    return None


def explore(col, vol, optset, mmap, depth, method="explicit"):
    ws = sandbox.fresh_dir("c19")
    store = sandbox.fresh_dir("c19s")
    case0 = {"volume": vol, "options": optset, "mmap": mmap,
             "method": method}
    try:
        make_volume(os.path.join(ws, "v.nii"), VOLUMES[vol])
        cmds = commands(vol, optset, ws, mmap, method)
        c0 = ws_canon(ws)
        k0 = canon_key(c0)
        seen = {k0: ([], snapshot(ws, store, k0), c0)}
        frontier = [k0]
        transitions = 0
        maxd = 0
        nontriv = 0
        for d in range(depth):
            nxt = []
            for key in frontier:
                hist, snap, canon = seen[key]
                for name in cmds:
                    restore(ws, snap)
                    r = apply(cmds, name)
                    transitions += 1
                    c1 = ws_canon(ws)
                    h1 = hist + [name]
                    case = dict(case0, history=h1)
                    why = responsibility_ok(name, r, c1)
                    if why:
                        col.violation("C19/success-status-but-output-"
                                      "incomplete/" + name, case,
                                      "every file and chunk written and "
                                      "readable", why)
                    if name == "scale-stats" and canon_key(c1) != key:
                        col.violation("C19/scale-stats-changed-the-dataset",
                                      case, "state unchanged", "changed")
                    if name in DATA_WRITING and r.ok:
                        # oracle (ii): c;c == c on decoded contents
                        r2 = apply(cmds, name)
                        transitions += 1
                        c2 = ws_canon(ws)
                        tgt = {"vol2pre": "main", "compute-scales": "main",
                               "pyramid": "allinone",
                               "convert": "converted"}[name]
                        if (c2[tgt] or {}).get("scales") != \
                                (c1[tgt] or {}).get("scales") or \
                                (c2[tgt] or {}).get("info") != \
                                (c1[tgt] or {}).get("info"):
                            col.violation(
                                "C19/repeated-step-changes-decoded-contents/"
                                + name, dict(case0, history=h1 + [name]),
                                "same decoded contents after repeating",
                                "%r -> %r" % ((c1[tgt] or {}).get("scales"),
                                              (c2[tgt] or {}).get("scales")))
                        restore(ws, snap)
                        apply(cmds, name)
                    k1 = canon_key(c1)
                    if k1 not in seen:
                        seen[k1] = (h1, snapshot(ws, store, k1), c1)
                        nxt.append(k1)
                        maxd = max(maxd, len(h1))
                        if any(isinstance(c1[k] and c1[k].get("scales"),
                                          list)
                               and any(isinstance(s, list)
                                       for s in c1[k]["scales"])
                               for k in c1 if c1[k]):
                            nontriv += 1
            frontier = nxt
        col.r["states"] += len(seen)
        col.r["transitions"] += transitions
        col.r["traces"] += transitions
        col.r["max_depth"] = max(col.r["max_depth"], maxd)
        col.ev(len(seen), nontriv, "bfs-done")
        # oracle (i): all-in-one == step by step (direct, depth-independent)
        if "pyramid" in cmds:
            restore(ws, seen[k0][1])
            steps = ["gen-info", "gen-scales", "vol2pre", "compute-scales"]
            rs = [apply(cmds, s) for s in steps]
            rp = apply(cmds, "pyramid")
            c = ws_canon(ws)
            case = dict(case0, history=steps + ["pyramid"])
            a, b = c["main"], c["allinone"]
            steps_ok = all(r.ok or (s == "gen-info" and r.status == 4
                                    and r.exc is None)
                           for s, r in zip(steps, rs))
            if steps_ok != rp.ok:
                col.ev(1, 1, "pair-bad")
                col.violation("C19/all-in-one-and-steps-disagree-on-success",
                              case, "both succeed or both fail",
                              "steps: %s; all-in-one: %s" % (
                                  [r.brief() for r in rs], rp.brief()))
            elif not rp.ok:
                col.ev(1, 1, "pair-both-fail")
            elif (a or {}).get("info") != (b or {}).get("info"):
                col.ev(1, 1, "pair-bad")
                col.violation("C19/all-in-one-info-differs-from-steps", case,
                              (a or {}).get("info"), (b or {}).get("info"))
            elif (a or {}).get("scales") != (b or {}).get("scales") \
                    or not complete(a):
                col.ev(1, 1, "pair-bad")
                col.violation("C19/all-in-one-voxels-differ-from-steps",
                              case, (a or {}).get("scales"),
                              (b or {}).get("scales"))
            else:
                col.ev(1, 1, "pair-ok")
            # oracle (v): the slice-stack workflow (same voxels delivered as
            # PNG slices in RAS order) gives the same dataset as the volume
            # workflow
            v = VOLUMES[vol]
            if v["dtype"] == "uint8" and not v.get("slope") \
                    and not optset.startswith("valuemap") and rp.ok \
                    and complete(a):
                _slices_equivalence(col, case0, ws, cmds, vol, optset, a)
        else:
            # sharded: the step-by-step pipeline alone must succeed
            restore(ws, seen[k0][1])
            steps = ["gen-info", "gen-scales", "vol2pre", "compute-scales"]
            rs = [apply(cmds, s) for s in steps]
            c = ws_canon(ws)
            if all(r.ok or r.status == 4 for r in rs) and complete(
                    c["main"]):
                col.ev(1, 1, "pair-ok")
            else:
                col.ev(1, 1, "pair-bad")
                col.violation("C19/sharded-step-by-step-pipeline-fails",
                              dict(case0, history=steps), "complete dataset",
                              "%s; scales %r" % ([r.brief() for r in rs],
                                                 c["main"] and
                                                 c["main"].get("scales")))
    finally:
        sandbox.drop_captured_exit_handlers()
        sandbox.rm(ws)
        sandbox.rm(store)


# ---- conformance: in-process main(argv) vs the real console processes -----
CONF_HISTORIES = [
    ["gen-info", "gen-scales", "vol2pre", "compute-scales", "scale-stats"],
    ["gen-info", "gen-scales", "vol2pre", "vol2pre", "compute-scales",
     "prep-convert", "convert"],
    ["compute-scales", "gen-info", "gen-scales", "gen-scales"],
    ["pyramid", "pyramid"],
]


def run_subprocess(script, argv, scratch):
    import subprocess
    import sys
    env = dict(os.environ)
    env["TMPDIR"] = scratch
    env["TQDM_DISABLE"] = "1"
    p = subprocess.run([sys.executable, "-m",
                        "neuroglancer_scripts.scripts." + script]
                       + [str(a) for a in argv], capture_output=True,
                       text=True, timeout=300, env=env)
    return p.returncode


def conformance(col, vol, optset, tier):
    from mc import runner
    ws_a = sandbox.fresh_dir("c19a")
    ws_b = sandbox.fresh_dir("c19b")
    try:
        for ws in (ws_a, ws_b):
            make_volume(os.path.join(ws, "v.nii"), VOLUMES[vol])
        ca = commands(vol, optset, ws_a, False)
        cb = commands(vol, optset, ws_b, False)
        hists = CONF_HISTORIES if tier == "thorough" else CONF_HISTORIES[:2]
        for hist in hists:
            if any(h not in ca for h in hist):
                continue
            for ws in (ws_a, ws_b):
                for k in ("main", "allinone", "converted"):
                    shutil.rmtree(os.path.join(ws, k), ignore_errors=True)
            for name in hist:
                ra = apply(ca, name)
                sa = 0 if ra.ok else (ra.status or 1)
                script, argv, _ = cb[name]
                sb = run_subprocess(script, argv, runner.scratch_root())
                if (sa == 0) != (sb == 0):
                    raise RuntimeError(
                        "in-process / subprocess mismatch: %s %s %r step %s:"
                        " in-process %s, subprocess exit %s"
                        % (vol, optset, hist, name, ra.brief(), sb))
            a, b = ws_canon(ws_a), ws_canon(ws_b)
            if canon_key(a) != canon_key(b):
                raise RuntimeError(
                    "in-process / subprocess state mismatch: %s %s %r:\n%r"
                    "\n%r" % (vol, optset, hist, a, b))
            col.ev(1, 1, "conformance-ok")
            col.extra("conformance_replays")
    finally:
        sandbox.drop_captured_exit_handlers()
        sandbox.rm(ws_a)
        sandbox.rm(ws_b)


def _slices_equivalence(col, case0, ws, cmds, vol, optset, ref_main):
    import PIL.Image
    v = VOLUMES[vol]
    shape = v["shape"]
    import nibabel
    arr = np.asarray(nibabel.load(os.path.join(ws, "v.nii")).dataobj)
    sdir = os.path.join(ws, "slices")
    shutil.rmtree(sdir, ignore_errors=True)
    os.makedirs(sdir)
    # the stack is cut in one of six orientations (identity, all axes
    # reversed, the two cyclic permutations with and without reversals, a
    # swap), chosen by the unit: columns run along the first letter's axis,
    # rows along the second, slices along the third
    codes = ("RAS", "LPI", "ASR", "PIL", "SRA", "RIP")
    code = codes[sum(map(ord, json.dumps(case0, sort_keys=True)))
                 % len(codes)]
    axis = {"R": 0, "L": 0, "A": 1, "P": 1, "S": 2, "I": 2}
    t = np.transpose(arr, [axis[ch] for ch in code])
    t = t[tuple(slice(None, None, 1 if ch in "RAS" else -1)
                for ch in code)]
    for k in range(t.shape[2]):
        # image[row r][column c] = t[c, r, k]
        PIL.Image.fromarray(np.ascontiguousarray(t[:, :, k].T)).save(
            os.path.join(sdir, "s%04d.png" % k))
    D4 = os.path.join(ws, "fromslices")
    shutil.rmtree(D4, ignore_errors=True)
    os.makedirs(D4)
    shutil.copy(os.path.join(ws, "main", "info"), os.path.join(D4, "info"))
    o = OPTSETS[optset]
    r1 = sandbox.run_cli("slices_to_precomputed",
                         [sdir, D4, "--input-orientation", code] + o)
    r2 = sandbox.run_cli("compute_scales", [D4] + o + cmds[
        "compute-scales"][1][len([D4] + o):])
    c = dataset_canon(D4)
    case = dict(case0, history=["gen-info", "gen-scales", "vol2pre",
                                "compute-scales", "slices-to-precomputed",
                                "compute-scales(slices)"],
                slice_orientation=code)
    if not (r1.ok and r2.ok):
        col.ev(1, 1, "slices-bad")
        col.violation("C19/slices-workflow-fails", case, "status 0",
                      "%s; %s" % (r1.brief(), r2.brief()))
    elif (c or {}).get("scales") != ref_main.get("scales"):
        col.ev(1, 1, "slices-bad")
        col.violation("C19/slices-workflow-voxels-differ-from-volume-"
                      "workflow", case, ref_main.get("scales"),
                      (c or {}).get("scales"))
    else:
        col.ev(1, 1, "slices-ok")
    shutil.rmtree(sdir, ignore_errors=True)
    shutil.rmtree(D4, ignore_errors=True)


def units(tier):
    depth = 6 if tier == "quick" else 9
    u = []
    for vol in VOLUMES:
        for optset in OPTSETS:
            if optset == "sharded" and "aniso" in vol:
                continue        # sharding needs cubic chunks
            big = vol in ("u8-aniso-z", "u8-aniso-x", "u8-20cube-tcs8")
            if VOLUMES[vol].get("tcs") and optset not in ("sharded",
                                                          "flat-nogzip"):
                continue
            for mmap in (False, True):
                if mmap and (tier == "quick" and optset != "default"):
                    continue
                for method in METHODS:
                    if method.startswith("average-outside") and (
                            VOLUMES[vol].get("segmentation") or mmap
                            or optset not in ("default", "nogzip")):
                        continue
                    if optset.startswith("valuemap") and (
                            method != "explicit" or mmap
                            or VOLUMES[vol].get("segmentation")):
                        continue
                    if tier == "quick" and method == "auto" and (
                            mmap or optset not in ("default", "sharded")):
                        continue
                    dd = depth if not mmap else min(depth, 5)
                    if big:
                        dd = min(dd, 5 if tier == "quick" else 6)
                    u.append({"volume": vol, "options": optset,
                              "mmap": mmap, "method": method, "depth": dd})
    for vol, optset in (("u8-130x3x2", "default"), ("u8-130x3x2", "sharded"),
                        ("u16-labels", "flat-nogzip"),
                        ("u16-aniso", "nogzip")):
        u.append({"kind": "conformance", "volume": vol, "options": optset,
                  "tier": tier})
    return u


def space(tier):
    return {"volumes": len(VOLUMES), "option_sets": len(OPTSETS),
            "menu": 8, "depth": 6 if tier == "quick" else 9}


def run_unit(u):
    col = Collector()
    if u.get("kind") == "conformance":
        conformance(col, u["volume"], u["options"], u["tier"])
        col.sample({"conformance": [u["volume"], u["options"]]})
        return col.result()
    explore(col, u["volume"], u["options"], u["mmap"], u["depth"],
            u.get("method", "explicit"))
    col.sample({"volume": u["volume"], "options": u["options"],
                "history": ["gen-info", "gen-scales", "vol2pre",
                            "compute-scales", "compute-scales"]})
    return col.result()


def replay(case):
    col = Collector()
    ws = sandbox.fresh_dir("c19r")
    try:
        make_volume(os.path.join(ws, "v.nii"), VOLUMES[case["volume"]])
        cmds = commands(case["volume"], case["options"], ws,
                        case.get("mmap", False),
                        case.get("method", "explicit"))
        hist = case["history"]
        prev = None
        c1 = ws_canon(ws)
        results = []
        if "slices-to-precomputed" in hist:
            # the slice-stack oracle: the four steps of the volume workflow,
            # then the same voxels delivered as slices
            for name in hist[:4]:
                apply(cmds, name)
            case0 = {"volume": case["volume"], "options": case["options"],
                     "mmap": case.get("mmap", False),
                     "method": case.get("method", "explicit")}
            _slices_equivalence(col, case0, ws, cmds, case["volume"],
                                case["options"], ws_canon(ws)["main"])
            return col.records()
        for i, name in enumerate(hist):
            before = c1
            r = apply(cmds, name)
            results.append((name, r))
            c1 = ws_canon(ws)
            cc = dict(case, history=hist[:i + 1])
            why = responsibility_ok(name, r, c1)
            if why:
                col.violation("C19/success-status-but-output-incomplete/"
                              + name, cc, "complete", why)
            if name == "scale-stats" and canon_key(c1) != canon_key(before):
                col.violation("C19/scale-stats-changed-the-dataset", cc,
                              "unchanged", "changed")
            if prev is not None and prev[0] == name and prev[1].ok and \
                    name in DATA_WRITING:
                tgt = {"vol2pre": "main", "compute-scales": "main",
                       "pyramid": "allinone", "convert": "converted"}[name]
                if (c1[tgt] or {}).get("scales") != \
                        (before[tgt] or {}).get("scales"):
                    col.violation("C19/repeated-step-changes-decoded-"
                                  "contents/" + name, cc, "same", "changed")
            prev = (name, r)
        if hist[-1] == "pyramid" and len(hist) == 5:
            a, b = c1["main"], c1["allinone"]
            rs = [r for n, r in results[:4]]
            rp = results[4][1]
            steps_ok = all(r.ok or (n == "gen-info" and r.status == 4
                                    and r.exc is None)
                           for (n, r) in results[:4])
            if steps_ok != rp.ok:
                col.violation("C19/all-in-one-and-steps-disagree-on-success",
                              case, "same", "differ")
            elif rp.ok and (a or {}).get("info") != (b or {}).get("info"):
                col.violation("C19/all-in-one-info-differs-from-steps", case,
                              "same", "differ")
            elif rp.ok and ((a or {}).get("scales") != (b or {}).get(
                    "scales") or not complete(a)):
                col.violation("C19/all-in-one-voxels-differ-from-steps",
                              case, "same", "differ")
        if case["options"] == "sharded" and len(hist) == 4:
            if not (all(r.ok or r.status == 4 for n, r in results)
                    and complete(c1["main"])):
                col.violation("C19/sharded-step-by-step-pipeline-fails",
                              case, "complete", "incomplete")
    finally:
        sandbox.drop_captured_exit_handlers()
        sandbox.rm(ws)
    return col.records()
