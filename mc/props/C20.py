"""C20 - reported statistics match the dataset that is actually produced.

(1) readable_count on EVERY integer 0..2^22 (quick) / 2^26 (thorough) plus
boundary windows around m*1024^k and up to 2^70, parsed back exactly.
(2) scale-stats output vs. the files the real conversion commands wrote.
"""
import json
import os
import re

import numpy as np

from mc import pipeline
from mc.env import sandbox
from mc.oracle import shard_spec
from mc.runner import Collector

ID = "C20"
LEVEL = "exploration"
REQUIRED_CLASSES = ["count-ok", "stats-ok"]
RULE = ("(1) every integer in [0, 2^22) quick / [0, 2^26) thorough in blocks "
        "of 2^16, plus windows of +-4096 around m*1024^k (k=1..6, 13 "
        "mantissas m) and +-64 around m*2^e (e=60..70), and a ladder of "
        "7 800 values m*2^k passed as numpy int32/int64/uint64; a count is "
        "non-trivial when it needs a prefix (>= 1000). (2) product of volume "
        "sizes x data types x channels x target chunk sizes x storage "
        "options: the real command sequence (generate-info, "
        "generate-scales-info, volume-to-precomputed, compute-scales) is run "
        "in-process and scale-stats stdout is compared with the chunk files "
        "/ shard index entries found on disk and with the decoded byte "
        "size; plus 3 datasets whose scale lists 2-3 chunk sizes, written by "
        "convert-chunks (chunks of every listed size), and 7 info-only datasets "
        "of 10^6 .. 10^16 chunks compared with exact integer arithmetic; non-trivial when "
        "the dataset has >= 2 chunks.")
ASSUMPTIONS = [
    "counts are integers (the documented parameter type)",
    "a reported quantity '<num> <prefix>' claims the value num*1024^k "
    "rounded at its last printed digit",
]
HOW_TO_READ = ("kind=count: readable_count(n) must parse back to within half "
               "a unit of its last digit, show >= 2 significant digits for "
               "n >= 10 and be <= 6 characters up to 2^60. kind=stats: "
               "scale-stats line vs files on disk for the dataset built by "
               "the listed commands")

PREFIX = {"": 0, "ki": 1, "Mi": 2, "Gi": 3, "Ti": 4, "Pi": 5, "Ei": 6}
MANT = [(95, 100), (995, 1000), (1, 1), (95, 10), (995, 100), (10, 1),
        (995, 10), (100, 1), (9995, 10), (1000, 1), (1023, 1), (2047, 2),
        (1024, 1)]
BLOCK = 1 << 16
_RX = re.compile(r"^(\d[\d,]*)(?:\.(\d))? (|ki|Mi|Gi|Ti|Pi|Ei)$")


def check_count(n, s):
    """list of (signature-suffix, expected, observed) for readable_count(n)"""
    if not isinstance(s, str):
        return [("not-a-string", "str", type(s).__name__)]
    m = _RX.match(s)
    if not m:
        return [("format", "'<digits>[.d] <IEC prefix>'", s)]
    whole, frac, pre = m.groups()
    factor = 1024 ** PREFIX[pre]
    whole = whole.replace(",", "")
    if frac is None:
        num, den = int(whole), 1
    else:
        num, den = int(whole) * 10 + int(frac), 10
    out = []
    # |num/den * factor - n| <= 0.5/den * factor  (float slack above 2^53)
    slack = (n * den) >> 50
    if abs(num * factor - n * den) * 2 > factor + slack:
        out.append(("not-within-rounding-distance",
                    "|value - %d| <= half a unit of the last digit" % n, s))
    digits = (whole + (frac or "")).lstrip("0")
    if n >= 10 and len(digits) < 2:
        out.append(("fewer-than-2-significant-digits",
                    ">= 2 significant digits for %d" % n, s))
    if n <= 2 ** 60 and len(s) > 6:
        out.append(("longer-than-6-characters", "<= 6 characters", s))
    return out


def _count_case(n):
    return {"kind": "count", "n": n}


def _run_range(col, lo, hi):
    from neuroglancer_scripts.utils import readable_count
    for n in range(lo, hi):
        try:
            s = readable_count(n)
        except Exception as exc:
            col.ev(1, 1, "count-exception")
            col.violation("C20/readable_count/exception/"
                          + type(exc).__name__, _count_case(n), "a string",
                          repr(exc))
            continue
        bad = check_count(n, s)
        col.ev(1, 1 if n >= 1000 else 0,
               "count-ok" if not bad else "count-bad")
        for tag, exp, obs in bad:
            col.violation("C20/readable_count/" + tag, _count_case(n), exp,
                          obs)


def _run_numpy_ints(col):
    """the statistics script passes numpy integers (np.prod results), whose
    arithmetic wraps where Python's does not: a ladder m * 2^k (41 mantissas
    in [1,2), k = 0..63) and its neighbours, as int32 / int64 / uint64"""
    from neuroglancer_scripts.utils import readable_count
    for k in range(0, 64):
        for j in range(41):
            c = (40 + j) * (1 << k) // 40
            for n in (c - 1, c, c + 1):
                if n < 0:
                    continue
                for t in (np.int32, np.int64, np.uint64):
                    if n > np.iinfo(t).max:
                        continue
                    try:
                        with np.errstate(all="ignore"):
                            s = readable_count(t(n))
                    except Exception as exc:
                        col.ev(1, 1, "count-exception")
                        col.violation("C20/readable_count/exception/"
                                      + type(exc).__name__,
                                      dict(_count_case(n), numpy=t.__name__),
                                      "a string", repr(exc))
                        continue
                    bad = check_count(n, s)
                    col.ev(1, 1 if n >= 1000 else 0,
                           "count-ok" if not bad else "count-bad")
                    for tag, exp, obs in bad:
                        col.violation("C20/readable_count/" + tag,
                                      dict(_count_case(n), numpy=t.__name__),
                                      exp, obs)


def _windows():
    w = []
    for k in range(1, 7):
        for a, b in MANT:
            c = a * 1024 ** k // b
            w.append((max(0, c - 4096), c + 4097))
    for e in range(60, 71):
        for a, b in MANT:
            c = a * 2 ** e // b
            w.append((c - 64, c + 65))
    return w


# ---- part 2 ---------------------------------------------------------------
SIZES = [(1, 1, 1), (5, 4, 3), (9, 1, 2), (17, 3, 2), (8, 8, 8), (33, 2, 1)]
DTYPES = ["uint8", "uint16", "uint32", "uint64", "float32"]
STORAGE = [[], ["--flat"], ["--no-gzip"], ["--flat", "--no-gzip"],
           ["--sharding", "1,1,0"], ["--sharding", "0,2,1"]]


def _stats_cases(tier):
    cases = []
    for size in SIZES:
        for dt in DTYPES:
            for nch in (1, 3):
                for target in (4, 8):
                    for st in STORAGE:
                        if tier == "quick" and not (
                                (dt == "uint8" and nch == 1)
                                or (size == (5, 4, 3) and not st)
                                or (size == (17, 3, 2) and target == 4
                                    and st in ([], ["--sharding", "1,1,0"]))):
                            continue
                        cases.append({"kind": "stats", "size": list(size),
                                      "dtype": dt, "channels": nch,
                                      "target": target, "storage": st})
    names = ("ds", "colin", "atlas_info", "of", "out/", "n", "info")
    for i, c in enumerate(cases):
        if names[i % len(names)] != "ds":
            c["ds_name"] = names[i % len(names)]
    return cases


def _parse_readable(s):
    m = _RX.match(s)
    if not m:
        return None
    whole, frac, pre = m.groups()
    whole = whole.replace(",", "")
    factor = 1024 ** PREFIX[pre]
    if frac is None:
        return int(whole), 1, factor
    return int(whole) * 10 + int(frac), 10, factor


def _size_matches(s, true_bytes):
    p = _parse_readable(s)
    if p is None:
        return False
    num, den, factor = p
    return abs(num * factor - true_bytes * den) * 2 <= factor


_LINE = re.compile(r"^Scale (\S+), (.*?), chunk size \[(.*?)\]: ([\d,]+) "
                   r"chunks, ([\d,]+) directories, raw uncompressed size "
                   r"(.*)B$")
_TOTAL = re.compile(r"^Total: ([\d,]+) chunks, ([\d,]+) directories, raw "
                    r"uncompressed size (.*)B$")


def _eval_stats(col, case):
    d = sandbox.fresh_dir("c20")
    try:
        return _eval_stats_in(col, case, d)
    finally:
        sandbox.rm(d)


def _eval_stats_in(col, case, d):
    size, dt, nch = case["size"], case["dtype"], case["channels"]
    shape = tuple(size) + ((nch,) if nch > 1 else ())
    n = int(np.prod(shape))
    arr = (np.arange(n, dtype=np.int64) % 200 + 1).reshape(shape).astype(dt)
    nii = pipeline.write_nifti(os.path.join(d, "v.nii"), arr)
    # the dataset directory's name is the user's choice
    ds = os.path.join(d, case.get("ds_name", "ds").rstrip("/"))
    st = case["storage"]
    sharded = "--sharding" in st
    steps = [
        ("volume_to_precomputed", ["--generate-info", nii, ds] +
         (st if sharded else [])),
        ("generate_scales_info", [os.path.join(ds, "info_fullres.json"), ds,
                                  "--target-chunk-size", case["target"]]),
        ("volume_to_precomputed", [nii, ds] + st),
        ("compute_scales", [ds] + ([] if sharded else st)),
    ]
    for script, args in steps:
        r = sandbox.run_cli(script, args)
        if not r.ok:
            # a failing conversion is C19's business; nothing to compare
            col.ev(1, 0, "stats-pipeline-failed/%s/%s" % (
                script, type(r.exc).__name__ if r.exc else r.status))
            return
    r = sandbox.run_cli("scale_stats",
                        [os.path.join(d, case.get("ds_name", "ds"))])
    if not r.ok:
        col.ev(1, 1, "stats-command-failed")
        col.violation("C20/scale-stats/command-failed", case, "status 0",
                      r.brief())
        return
    info = pipeline.load_info(ds)
    lines = [ln for ln in r.out.splitlines() if ln.strip()]
    per_scale = {}
    total = None
    for ln in lines:
        m = _LINE.match(ln)
        if m:
            per_scale[m.group(1)] = (int(m.group(4).replace(",", "")),
                                     m.group(6))
            continue
        m = _TOTAL.match(ln)
        if m:
            total = (int(m.group(1).replace(",", "")), m.group(3))
    pio = pipeline.open_dataset(ds)
    tot_chunks = tot_bytes = 0
    ok = True
    for i, sc in enumerate(info["scales"]):
        key = sc["key"]
        sdir = os.path.join(ds, key)
        if sharded and not (os.path.isdir(sdir) and any(
                n.endswith(".shard") for n in os.listdir(sdir))):
            # every command exited with status 0 and no shard file exists:
            # nothing was written for this scale
            actual = 0
        elif sharded:
            sp = dict(sc["sharding"])
            rd = shard_spec.SpecReader(sdir, sp)
            try:
                actual = sum(1 for e in rd.all_entries() if e[3] > 0)
            except shard_spec.SpecViolation as exc:
                col.ev(1, 0, "stats-shard-unreadable/" + exc.tag)
                return
        else:
            coords, _ = pipeline.list_chunk_files(sdir)
            actual = len(set(coords))
        if key in per_scale and per_scale[key][0] != actual:
            # the count is compared first: it needs no decoding
            ok = False
            col.violation("C20/scale-stats/chunk-count", case,
                          "%d chunks written for scale %s" % (actual, key),
                          "%d reported" % per_scale[key][0])
        try:
            nbytes = pipeline.read_scale(pio, i).nbytes
        except Exception as exc:
            if not ok:
                col.ev(1, 1, "stats-bad")
                return
            # an unreadable dataset is C05/C19's business; nothing to compare
            col.ev(1, 0, "stats-dataset-unreadable/" + type(exc).__name__)
            return
        tot_chunks += actual
        tot_bytes += nbytes
        if key not in per_scale:
            ok = False
            col.violation("C20/scale-stats/scale-not-reported", case, key,
                          r.out[-600:])
            continue
        rep_chunks, rep_size = per_scale[key]
        if not _size_matches(rep_size, nbytes):
            ok = False
            col.violation("C20/scale-stats/size", case,
                          "%d bytes decoded for scale %s" % (nbytes, key),
                          rep_size + "B")
    if total is None:
        ok = False
        col.violation("C20/scale-stats/no-total-line", case, "Total: ...",
                      r.out[-300:])
    else:
        if total[0] != tot_chunks:
            ok = False
            col.violation("C20/scale-stats/total-chunk-count", case,
                          tot_chunks, total[0])
        if not _size_matches(total[1], tot_bytes):
            ok = False
            col.violation("C20/scale-stats/total-size", case, tot_bytes,
                          total[1] + "B")
    col.ev(1, 1 if tot_chunks >= 2 else 0,
           "stats-ok/%d-scales" % len(info["scales"]) if ok else "stats-bad")


MULTI = [((10, 6, 4), [[4, 4, 4], [2, 2, 2]], "uint16", 2),
         ((8, 8, 8), [[8, 8, 8], [4, 4, 4], [4, 8, 2]], "uint8", 1),
         ((5, 3, 2), [[4, 4, 4], [1, 1, 1]], "float32", 1)]


def _eval_stats_multi(col, case):
    """a scale listing several chunk sizes: convert-chunks writes the chunks
    of every listed size; scale-stats must report exactly those"""
    from neuroglancer_scripts import accessor, precomputed_io
    d = sandbox.fresh_dir("c20m")
    try:
        size, css, dt, nch = (case["size"], case["chunk_sizes"],
                              case["dtype"], case["channels"])
        info = {"type": "image", "data_type": dt, "num_channels": nch,
                "scales": [{"key": "full", "size": list(size),
                            "chunk_sizes": css, "resolution": [1, 1, 1],
                            "voxel_offset": [0, 0, 0], "encoding": "raw"}]}
        src, dst = os.path.join(d, "src"), os.path.join(d, "dst")
        os.makedirs(src)
        acc = accessor.get_accessor_for_url(src, {"flat": True,
                                                  "gzip": False})
        pio = precomputed_io.get_IO_for_new_dataset(info, acc)
        c, z, y, x = np.meshgrid(np.arange(nch), np.arange(size[2]),
                                 np.arange(size[1]), np.arange(size[0]),
                                 indexing="ij")
        vol = (1 + x + 3 * y + 7 * z + 11 * c).astype(dt)
        for cs in css:
            for cc in pipeline.chunk_grid(size, cs):
                pio.write_chunk(np.ascontiguousarray(
                    vol[:, cc[4]:cc[5], cc[2]:cc[3], cc[0]:cc[1]]), "full",
                    cc)
        r = sandbox.run_cli("convert_chunks", ["--copy-info", "--flat",
                                               "--no-gzip", src, dst])
        if not r.ok:
            col.ev(1, 0, "stats-pipeline-failed/convert_chunks")
            return
        r = sandbox.run_cli("scale_stats", [dst])
        if not r.ok:
            col.ev(1, 1, "stats-command-failed")
            col.violation("C20/scale-stats/command-failed", case,
                          "status 0", r.brief())
            return
        coords, _ = pipeline.list_chunk_files(os.path.join(dst, "full"))
        rd = pipeline.open_dataset(dst, {"flat": True, "gzip": False})
        actual_chunks = len(set(coords))
        actual_bytes = sum(rd.read_chunk("full", cc).nbytes
                           for cc in set(coords))
        rep = []
        total = None
        for ln in r.out.splitlines():
            m = _LINE.match(ln)
            if m:
                rep.append((int(m.group(4).replace(",", "")), m.group(6)))
            m = _TOTAL.match(ln)
            if m:
                total = (int(m.group(1).replace(",", "")), m.group(3))
        ok = True
        if len(rep) != len(css):
            ok = False
            col.violation("C20/scale-stats/multi-chunk-size/lines", case,
                          "%d lines" % len(css), r.out[-400:])
        elif sum(n for n, _ in rep) != actual_chunks:
            ok = False
            col.violation("C20/scale-stats/multi-chunk-size/chunk-count",
                          case, actual_chunks, [n for n, _ in rep])
        if total is None or total[0] != actual_chunks:
            ok = False
            col.violation("C20/scale-stats/multi-chunk-size/total-chunk-"
                          "count", case, actual_chunks, total)
        elif not _size_matches(total[1], actual_bytes):
            ok = False
            col.violation("C20/scale-stats/multi-chunk-size/total-size",
                          case, "%d bytes decoded from the chunk files"
                          % actual_bytes, total[1] + "B")
        col.ev(1, 1, "stats-ok/multi-chunk-size" if ok else "stats-bad")
    finally:
        sandbox.drop_captured_exit_handlers()
        sandbox.rm(d)


INFO_ONLY = [
    # (sizes per scale, chunk size, dtype, channels)
    ([[6400, 6400, 6400], [3200, 3200, 3200]], 64, "uint8", 1),
    ([[6572, 7404, 5711], [3286, 3702, 2856], [1643, 1851, 1428]], 64,
     "uint8", 1),
    ([[63999, 999, 1000]], 64, "uint16", 3),
    ([[2 ** 53 + 1, 1, 1]], 1, "uint8", 1),
    ([[64 * 2 ** 53 + 1, 1, 1], [32 * 2 ** 53 + 1, 1, 1]], 64, "uint8", 1),
    ([[2 ** 31 + 1, 2, 1]], 2, "float32", 1),
    ([[100000, 100000, 100]], 1, "uint8", 1),
    ([[1013309916158361600 // 4, 2, 2]], 64, "uint8", 1),      # 900 PiB
    ([[675539944105574400 // 4, 2, 2], [337769972052787200 // 4, 2, 2]], 64,
     "uint8", 1),                                             # 600 + 300 PiB
]


def _eval_stats_info_only(col, case):
    """scale-stats on an info that describes more chunks than could be
    written here (10^6 .. 10^16): the reported counts must be the exact
    ceil(size / chunk size) products - the numbers the conversion commands
    write, as the small datasets establish - and the sizes the exact byte
    counts"""
    d = sandbox.fresh_dir("c20i")
    try:
        sizes, cs, dt, nch = (case["sizes"], case["chunk"], case["dtype"],
                              case["channels"])
        info = {"type": "image", "data_type": dt, "num_channels": nch,
                "scales": [{"key": "s%d" % k, "size": sz,
                            "chunk_sizes": [[cs, cs, cs]],
                            "resolution": [2 ** k] * 3,
                            "voxel_offset": [0, 0, 0], "encoding": "raw"}
                           for k, sz in enumerate(sizes)]}
        with open(os.path.join(d, "info"), "w") as f:
            json.dump(info, f)
        r = sandbox.run_cli("scale_stats", [d])
        if not r.ok:
            col.ev(1, 1, "stats-command-failed")
            col.violation("C20/scale-stats/command-failed", case,
                          "status 0", r.brief())
            return
        rep, total = {}, None
        for ln in r.out.splitlines():
            m = _LINE.match(ln)
            if m:
                rep[m.group(1)] = (int(m.group(4).replace(",", "")),
                                   m.group(6))
            m = _TOTAL.match(ln)
            if m:
                total = (int(m.group(1).replace(",", "")), m.group(3))
        ok = True
        tot_c = tot_b = 0
        item = np.dtype(dt).itemsize
        for k, sz in enumerate(sizes):
            want_c = 1
            for a in sz:
                want_c *= -(-a // cs)
            want_b = sz[0] * sz[1] * sz[2] * item * nch
            tot_c += want_c
            tot_b += want_b
            got = rep.get("s%d" % k)
            if got is None or got[0] != want_c:
                ok = False
                col.violation("C20/scale-stats/info-only/chunk-count", case,
                              "%d chunks in scale s%d" % (want_c, k),
                              got if got else r.out[-300:])
            elif not _size_matches(got[1], want_b):
                ok = False
                col.violation("C20/scale-stats/info-only/size", case,
                              "%d bytes" % want_b, got[1] + "B")
        if total is None or total[0] != tot_c:
            ok = False
            col.violation("C20/scale-stats/info-only/total-chunk-count",
                          case, tot_c, total if total else r.out[-300:])
        elif not _size_matches(total[1], tot_b):
            ok = False
            col.violation("C20/scale-stats/info-only/total-size", case,
                          tot_b, total[1] + "B")
        col.ev(1, 1, "stats-ok/info-only" if ok else "stats-bad")
    finally:
        sandbox.rm(d)


def units(tier):
    top = (1 << 22) if tier == "quick" else (1 << 26)
    step = BLOCK if tier == "quick" else BLOCK * 8
    u = [{"kind": "range", "lo": lo, "hi": lo + step}
         for lo in range(0, top, step)]
    w = _windows()
    for i in range(0, len(w), 13):
        u.append({"kind": "windows", "w": w[i:i + 13]})
    sc = _stats_cases(tier)
    for i in range(0, len(sc), 6):
        u.append({"kind": "statsbatch", "cases": sc[i:i + 6]})
    u.append({"kind": "statsbatch", "cases": [
        {"kind": "stats-multi", "size": list(sz), "chunk_sizes": css,
         "dtype": dt, "channels": nch} for sz, css, dt, nch in MULTI]})
    u.append({"kind": "numpy-ints"})
    u.append({"kind": "statsbatch", "cases": [
        {"kind": "stats-info-only", "sizes": sizes, "chunk": cs,
         "dtype": dt, "channels": nch} for sizes, cs, dt, nch in INFO_ONLY]})
    return u


def space(tier):
    return {"integers": (1 << 22) if tier == "quick" else (1 << 26),
            "windows": len(_windows()),
            "stats_datasets": len(_stats_cases(tier))}


def run_unit(u):
    col = Collector()
    if u["kind"] == "range":
        _run_range(col, u["lo"], u["hi"])
        col.sample(_count_case(u["hi"] - 1))
    elif u["kind"] == "numpy-ints":
        _run_numpy_ints(col)
        col.sample(dict(_count_case(1013309916158361600), numpy="int64"))
    elif u["kind"] == "windows":
        for lo, hi in u["w"]:
            _run_range(col, lo, hi)
        col.sample(_count_case(u["w"][0][0]))
    else:
        for case in u["cases"]:
            if case["kind"] == "stats-multi":
                _eval_stats_multi(col, case)
            elif case["kind"] == "stats-info-only":
                _eval_stats_info_only(col, case)
            else:
                _eval_stats(col, case)
        col.sample(u["cases"][0])
    return col.result()


def replay(case):
    col = Collector()
    if case["kind"] == "count" and case.get("numpy"):
        _run_numpy_ints(col)
        return [r for r in col.records()
                if r["case"].get("n") == case["n"]
                and r["case"].get("numpy") == case["numpy"]]
    if case["kind"] == "count":
        _run_range(col, case["n"], case["n"] + 1)
    elif case["kind"] == "stats-multi":
        _eval_stats_multi(col, case)
    elif case["kind"] == "stats-info-only":
        _eval_stats_info_only(col, case)
    else:
        _eval_stats(col, case)
    return col.records()
