"""C04 - sharded output is readable by any reader that follows the format.

Shares the C05 state space (same BFS over the real writer); the oracle is a
reader written from the sharded-format specification only
(mc/oracle/shard_spec.py): file name from the chunk id, minishard index at
the minishard's slot of the shard index, strictly increasing ids, ranges
inside the file and pairwise disjoint, RFC 1952 gzip, exact bytes.
"""
import itertools

from mc import sharded_explore as se
from mc.props import C05 as base
from mc.runner import Collector

ID = "C04"
LEVEL = "model_checking"
FAMILY = "C04/"
REQUIRED_CLASSES = ["bfs-config-ok"]
RULE = ("same exploration as C05 (BFS over every store order of every "
        "subset of small grids on the real writer, every state closed), "
        "configurations = grids x bit triples {0,1,2}^3 + boundary triples "
        "(shard bits up to 70, minishard bits up to 4, preshift 62) x 4 "
        "index/data encoding pairs; in every closed state every chunk of "
        "the grid is looked up by the specification-only reader. "
        "Big-payload family (chunks of 0..12289 bytes, 4 orders x both "
        "buffering strategies x 24 configurations). "
        "Non-trivial states: >= 2 chunks stored.")
ASSUMPTIONS = [
    "DESIGN.md Appendix A.1 restates the sharded format correctly "
    "('gzip' = RFC 1952; offsets relative to the end of the shard index; "
    "entry m of the shard index belongs to minishard m)",
    "minishard_bits > 10 are not explored (the writer allocates 16*2^bits "
    "bytes per shard)",
]
HOW_TO_READ = base.HOW_TO_READ + ("; the lookup is done by "
                                  "mc/oracle/shard_spec.py")

EXTRA_TRIPLES = [(0, 0, 6), (4, 0, 0), (0, 9, 0), (1, 1, 62), (2, 62, 0),
                 (0, 70, 0), (3, 3, 3), (0, 3, 1), (0, 5, 0), (1, 6, 0),
                 (0, 7, 1)]


def triples(tier):
    return list(itertools.product(range(3), repeat=3)) + EXTRA_TRIPLES


def configs(tier):
    grids = base.GRIDS_Q if tier == "quick" else base.GRIDS_T
    out = []
    for size, c in grids:
        for t in triples(tier):
            for ie, de in base.ENCODINGS:
                out.append({"size": list(size), "chunk": c,
                            "triple": list(t), "index_enc": ie,
                            "data_enc": de})
    out.sort(key=lambda x: len(se.chunk_list(x["size"], x["chunk"])))
    return out


def units(tier):
    cf = configs(tier)
    per = 6
    u = [{"configs": cf[i:i + per], "tier": tier}
         for i in range(0, len(cf), per)]
    bc = base.big_configs()
    u += [{"kind": "big", "configs": bc[i:i + 8], "tier": tier}
          for i in range(0, len(bc), 8)]
    return u


def space(tier):
    grids = base.GRIDS_Q if tier == "quick" else base.GRIDS_T
    return {"grids": len(grids), "triples": len(triples(tier)),
            "encodings": len(base.ENCODINGS), "configs": len(configs(tier))}


def run_unit(u):
    col = Collector()
    if u.get("kind") == "big":
        base.big_unit(col, u["configs"], FAMILY, pkg=False, spec=True)
        return col.result()
    for cfg in u["configs"]:
        # the on-disk strategy produces byte-identical files (C05 checks
        # that), so the spec reader is run on the BFS states only, plus one
        # on-disk history per configuration in thorough
        base.explore_config(col, cfg, u["tier"], FAMILY, pkg=False,
                            spec=True, ondisk=False)
        if u["tier"] == "thorough":
            c2 = dict(cfg)
            c2["strategy"] = "on disk"
            n = len(se.chunk_list(cfg["size"], cfg["chunk"]))
            vio = se.Violations()
            se.run_history(c2, tuple(range(n))[::-1], vio, pkg=False,
                           spec=True)
            col.r["traces"] += 1
            bad = base._report(col, vio, FAMILY)
            col.ev(1, 0, "ondisk-history-ok" if not bad
                   else "ondisk-history-violating")
    c = dict(u["configs"][-1])
    c["strategy"] = "in memory"
    col.sample(se.case_of(c, list(range(len(se.chunk_list(
        c["size"], c["chunk"]))))[::-1]))
    return col.result()


def replay(case):
    return base.replay(case, family=FAMILY, pkg=False, spec=True)
