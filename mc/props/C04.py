"""C04 - sharded output is readable by any reader that follows the format.

Shares the C05 state space (same BFS over the real writer); the oracle is a
reader written from the sharded-format specification only
(mc/oracle/shard_spec.py): file name from the chunk id, minishard index at
the minishard's slot of the shard index, strictly increasing ids, ranges
inside the file and pairwise disjoint, RFC 1952 gzip, exact bytes.
"""
import itertools

from mc import sharded_explore as se
from mc.props import C05 as base
from mc.runner import Collector

ID = "C04"
LEVEL = "model_checking"
FAMILY = "C04/"
REQUIRED_CLASSES = ["bfs-config-ok"]
RULE = ("same exploration as C05 (BFS over every store order of every "
        "subset of small grids on the real writer, every state closed), "
        "configurations = grids x bit triples {0,1,2}^3 + boundary triples "
        "(shard bits up to 70, minishard bits up to 4, preshift 62) x 4 "
        "index/data encoding pairs; in every closed state every chunk of "
        "the grid is looked up by the specification-only reader. "
        "Big-payload family (chunks of 0..12289 bytes, 4 orders x both "
        "buffering strategies, three length patterns). Huge-grid family: "
        "7 grids of 2^33..2^63 chunks, 7 chunks each whose identifiers have "
        "the top bits set (beyond 2^32 and 2^53). Two-scale sessions on one "
        "accessor object (close between the scales / single close / "
        "alternating stores) on 4 configurations. "
        "Non-trivial states: >= 2 chunks stored.")
ASSUMPTIONS = [
    "DESIGN.md Appendix A.1 restates the sharded format correctly "
    "('gzip' = RFC 1952; offsets relative to the end of the shard index; "
    "entry m of the shard index belongs to minishard m)",
    "minishard_bits > 10 are not explored (the writer allocates 16*2^bits "
    "bytes per shard)",
]
HOW_TO_READ = base.HOW_TO_READ + ("; the lookup is done by "
                                  "mc/oracle/shard_spec.py")

EXTRA_TRIPLES = [(0, 0, 6), (4, 0, 0), (0, 9, 0), (1, 1, 62), (2, 62, 0),
                 (0, 70, 0), (3, 3, 3), (0, 3, 1), (0, 5, 0), (1, 6, 0),
                 (0, 7, 1)]


def triples(tier):
    return list(itertools.product(range(3), repeat=3)) + EXTRA_TRIPLES


def configs(tier):
    grids = base.GRIDS_Q if tier == "quick" else base.GRIDS_T
    out = []
    for size, c in grids:
        for t in triples(tier):
            for ie, de in base.ENCODINGS:
                out.append({"size": list(size), "chunk": c,
                            "triple": list(t), "index_enc": ie,
                            "data_enc": de})
    out.sort(key=lambda x: len(se.chunk_list(x["size"], x["chunk"])))
    return out


HUGE_GRIDS = [
    # (log2 chunks per axis, (minishard, shard, preshift) bits)
    (18, (1, 53, 0)), (18, (0, 54, 0)), (18, (2, 50, 2)), (21, (1, 62, 0)),
    (11, (1, 32, 0)), (11, (3, 28, 2)), (16, (1, 47, 0)),
]


def _eval_huge_grid(col, logn, triple):
    """grids of 2^33 .. 2^63 chunks (identifiers beyond 2^32 and 2^53):
    a handful of chunks whose identifiers have the top bits set are stored;
    the specification-only reader must find each of them"""
    import json
    import os

    from mc.env import sandbox
    from mc.oracle import morton_spec, shard_spec
    from neuroglancer_scripts import accessor
    n = 1 << logn
    mb, sb, pb = triple
    sharding = {"@type": "neuroglancer_uint64_sharded_v1",
                "hash": "identity", "minishard_bits": mb, "shard_bits": sb,
                "preshift_bits": pb, "minishard_index_encoding": "raw",
                "data_encoding": "raw"}
    info = {"type": "image", "data_type": "uint8", "num_channels": 1,
            "scales": [{"key": se.KEY, "size": [n, n, n],
                        "chunk_sizes": [[1, 1, 1]], "resolution": [1, 1, 1],
                        "voxel_offset": [0, 0, 0], "encoding": "raw",
                        "sharding": sharding}]}
    pos = [(n - 1, n - 1, n - 1), (n - 1, 0, 0), (1, n - 1, 0),
           (n // 2 + 1, 1, n - 1), (1, 0, n // 2), (0, 0, 0), (1, 1, 1)]
    case = {"kind": "huge-grid", "log2_chunks_per_axis": logn,
            "triple": list(triple), "any_gzip": False}
    d = sandbox.fresh_dir("c04h")
    try:
        with open(os.path.join(d, "info"), "w") as f:
            json.dump(info, f)
        sandbox.install_atexit_capture()
        try:
            acc = accessor.get_accessor_for_url(d)
            for k, (x, y, z) in enumerate(pos):
                acc.store_chunk(bytes([k + 1]) * (k + 1), se.KEY,
                                (x, x + 1, y, y + 1, z, z + 1))
            with sandbox.quiet():
                acc.close()
        except Exception as exc:
            col.ev(1, 1, "huge-grid-bad")
            col.violation("C04/huge-grid/store-or-close-failed/"
                          + type(exc).__name__, case, "stored",
                          repr(exc)[:200])
            return
        finally:
            sandbox.drop_captured_exit_handlers()
        rd = shard_spec.SpecReader(os.path.join(d, se.KEY), sharding)
        ok = True
        for k, p3 in enumerate(pos):
            cid = morton_spec.compressed_morton_code(p3, (n, n, n))
            c2 = dict(case, position=list(p3), chunk_id=str(cid))
            try:
                got = rd.fetch(cid)
            except shard_spec.SpecViolation as exc:
                ok = False
                col.violation("C04/huge-grid/" + exc.tag, c2,
                              "well-formed shard", str(exc)[:200])
                continue
            if got != bytes([k + 1]) * (k + 1):
                ok = False
                col.violation("C04/huge-grid/stored-chunk-not-found-under-"
                              "its-identifier", c2,
                              (bytes([k + 1]) * (k + 1)).hex(),
                              None if got is None else got.hex()[:40])
        col.r["traces"] += 1
        col.r["states"] += 1
        col.r["transitions"] += len(pos)
        col.ev(1, 1, "huge-grid-ok" if ok else "huge-grid-bad")
    finally:
        sandbox.rm(d)


def units(tier):
    cf = configs(tier)
    per = 6
    u = [{"configs": cf[i:i + per], "tier": tier}
         for i in range(0, len(cf), per)]
    bc = base.big_configs()
    u += [{"kind": "big", "configs": bc[i:i + 8], "tier": tier}
          for i in range(0, len(bc), 8)]
    u.append({"kind": "huge-grid", "tier": tier})
    # several write sessions on one accessor object (store, close, store
    # into another scale, close ...), read by the specification-only reader
    for (size, c) in base.TWO_SCALE_GRIDS[:2]:
        for t in ((1, 1, 0), (2, 0, 0)):
            u.append({"kind": "two-scale", "tier": tier, "configs": [
                {"size": list(size), "chunk": c, "triple": list(t),
                 "index_enc": "raw", "data_enc": "raw"}]})
    return u


def space(tier):
    grids = base.GRIDS_Q if tier == "quick" else base.GRIDS_T
    return {"grids": len(grids), "triples": len(triples(tier)),
            "encodings": len(base.ENCODINGS), "configs": len(configs(tier))}


def run_unit(u):
    col = Collector()
    if u.get("kind") == "two-scale":
        for cfg in u["configs"]:
            base.two_scale_config(col, cfg, FAMILY, pkg=False, spec=True)
        col.sample(se.case_of(dict(u["configs"][0], strategy="on disk"),
                              [1, 0], order_s1=[0], family="two-scale"))
        return col.result()
    if u.get("kind") == "huge-grid":
        for logn, triple in HUGE_GRIDS:
            _eval_huge_grid(col, logn, triple)
        col.sample({"kind": "huge-grid", "log2_chunks_per_axis": 18,
                    "triple": [1, 53, 0]})
        return col.result()
    if u.get("kind") == "big":
        base.big_unit(col, u["configs"], FAMILY, pkg=False, spec=True)
        return col.result()
    for cfg in u["configs"]:
        # the on-disk strategy produces byte-identical files (C05 checks
        # that), so the spec reader is run on the BFS states only, plus one
        # on-disk history per configuration in thorough
        base.explore_config(col, cfg, u["tier"], FAMILY, pkg=False,
                            spec=True, ondisk=False)
        if u["tier"] == "thorough":
            c2 = dict(cfg)
            c2["strategy"] = "on disk"
            n = len(se.chunk_list(cfg["size"], cfg["chunk"]))
            vio = se.Violations()
            se.run_history(c2, tuple(range(n))[::-1], vio, pkg=False,
                           spec=True)
            col.r["traces"] += 1
            bad = base._report(col, vio, FAMILY)
            col.ev(1, 0, "ondisk-history-ok" if not bad
                   else "ondisk-history-violating")
    c = dict(u["configs"][-1])
    c["strategy"] = "in memory"
    col.sample(se.case_of(c, list(range(len(se.chunk_list(
        c["size"], c["chunk"]))))[::-1]))
    return col.result()


def replay(case):
    if case.get("kind") == "huge-grid":
        col = Collector()
        _eval_huge_grid(col, case["log2_chunks_per_axis"],
                        tuple(case["triple"]))
        return [r for r in col.records()
                if r["case"].get("position") == case.get("position")]
    return base.replay(case, family=FAMILY, pkg=False, spec=True)
