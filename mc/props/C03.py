"""C03 - writing then reading a chunk returns the same array (lossless
encodings), bounded error for JPEG; off-grid positions are rejected.

E-STATE: for every configuration (data type x channels x encoding x
accessor x one/two-scale info) every ordered selection of writes to distinct
chunks (with a content alphabet that includes big-endian and non-contiguous
arrays) is executed on the real PrecomputedIO; in every resulting state all
chunks are read by the same handle and by a freshly opened one and compared
with a dict model. E-INPUT: the full coordinate lattice against the grid
predicate.
"""
import itertools
import json
import os

import numpy as np

from mc import pipeline
from mc.env import sandbox
from mc.props.C12 import tree as dir_tree
from mc.runner import Collector

ID = "C03"
LEVEL = "model_checking"
REQUIRED_CLASSES = ["config-ok", "lattice-ok", "reject-ok"]
RULE = ("one unit = one configuration: data_type x num_channels {1,2,3} x "
        "encoding (raw; compressed_segmentation blocks [8,8,8],[2,2,2],"
        "[2,1,4]; jpeg xy/xz at quality 95/100) x accessor (deep/flat x "
        "gzip/no-gzip, sharded in-memory / on-disk with raw/raw, gzip/raw, raw/gzip, gzip/gzip index/data encodings) x info (one scale "
        "(5,4,3)/2^3; two scales adding (3,2,2)/4^3; a scale listing two chunk sizes, file accessors only). "
        "Histories: every "
        "ordered selection of <= 3 (quick) / 4 (thorough) writes to distinct "
        "chunks out of 4 (interior, x-border, corner, coarse scale) x content "
        "{ramp, checker stored big-endian and non-contiguous}; states "
        "deduplicated on (directory tree, model). Every state: all chunks "
        "read by the writing handle and by a fresh accessor + PrecomputedIO. "
        "Lattice: all 11^6 coordinate tuples around the grid vs the grid "
        "predicate; every rejected tuple that differs from a valid one in "
        "one component is also offered to write_chunk. Non-trivial states: "
        ">= 2 chunks written.")
ASSUMPTIONS = [
    "JPEG bound: |error| <= 8 on the ramp 10+50c+6x+19y+31z at quality >= "
    "95, and on the second ramp 240-40c-7x-13y-23z (libjpeg stays within 2 "
    "there; the smallest error of any axis / plane / channel permutation "
    "on these ramps is 12)",
    "an unwritten chunk must raise on read (any exception class) or, for "
    "sharded datasets, decode to an error; it must never yield an array",
]
HOW_TO_READ = ("case: info built from dtype/channels/encoding/two_scales, "
               "accessor options; history = [[scale index, chunk coords, "
               "content kind], ...] executed with PrecomputedIO.write_chunk; "
               "'read' = the chunk whose read-back differs, 'handle' = "
               "same|fresh")

SIZE0, CS0 = [5, 4, 3], [2, 2, 2]
SIZE1, CS1 = [3, 2, 2], [4, 4, 4]
ACCESSORS = [{"cls": "file", "flat": False, "gzip": True},
             {"cls": "file", "flat": True, "gzip": False},
             {"cls": "file", "flat": False, "gzip": False},
             {"cls": "file", "flat": True, "gzip": True},
             {"cls": "sharded", "strategy": "in memory"},
             {"cls": "sharded", "strategy": "on disk"},
             {"cls": "sharded", "strategy": "on disk", "index_enc": "gzip",
              "data_enc": "raw"},
             {"cls": "sharded", "strategy": "in memory", "index_enc": "raw",
              "data_enc": "gzip"},
             {"cls": "sharded", "strategy": "on disk", "index_enc": "gzip",
              "data_enc": "gzip"}]
CONTENTS = ["ramp", "checker-be"]


def encodings(dtype, nch):
    out = [{"encoding": "raw"}]
    if dtype in ("uint32", "uint64"):
        for b in ([8, 8, 8], [2, 2, 2], [2, 1, 4]):
            out.append({"encoding": "compressed_segmentation",
                        "compressed_segmentation_block_size": b})
    if dtype == "uint8" and nch in (1, 3):
        for plane in ("xy", "xz"):
            for q in (95, 100):
                out.append({"encoding": "jpeg", "jpeg_plane": plane,
                            "jpeg_quality": q})
    return out


def make_info(cfg):
    enc = dict(cfg["enc"])
    enc.pop("jpeg_plane", None)
    enc.pop("jpeg_quality", None)
    scales = []
    for i, (size, cs) in enumerate([(SIZE0, CS0), (SIZE1, CS1)][
            :2 if cfg["two_scales"] else 1]):
        s = {"key": "s%d" % i, "size": size, "chunk_sizes": [cs],
             "resolution": [2 ** i] * 3, "voxel_offset": [0, 0, 0]}
        if cfg.get("multi_cs") and i == 0:
            # a scale may list several chunk sizes; chunks of each are valid
            s["chunk_sizes"] = [cs, [4, 4, 4]]
        s.update(enc)
        if cfg["acc"]["cls"] == "sharded":
            s["sharding"] = {"@type": "neuroglancer_uint64_sharded_v1",
                             "hash": "identity", "minishard_bits": 1,
                             "shard_bits": 1, "preshift_bits": 0,
                             "minishard_index_encoding":
                             cfg["acc"].get("index_enc", "raw"),
                             "data_encoding":
                             cfg["acc"].get("data_enc", "raw")}
        scales.append(s)
    return {"type": "image", "data_type": cfg["dtype"],
            "num_channels": cfg["channels"], "scales": scales}


def chunk_menu(cfg):
    m = [(0, (0, 2, 0, 2, 0, 2)), (0, (4, 5, 0, 2, 0, 2)),
         (0, (4, 5, 2, 4, 2, 3))]
    if cfg["two_scales"]:
        m.append((1, (0, 3, 0, 2, 0, 2)))
    elif cfg.get("multi_cs"):
        m.append((0, (4, 5, 0, 4, 0, 3)))     # a chunk of the second size
    else:
        m.append((0, (2, 4, 2, 4, 0, 2)))
    return m


def content(kind, cfg, cc):
    """(array to write, expected little-endian native array)"""
    nch, dt = cfg["channels"], cfg["dtype"]
    X, Y, Z = cc[1] - cc[0], cc[3] - cc[2], cc[5] - cc[4]
    c, z, y, x = np.meshgrid(np.arange(nch), np.arange(cc[4], cc[5]),
                             np.arange(cc[2], cc[3]),
                             np.arange(cc[0], cc[1]), indexing="ij")
    if kind == "ramp":
        v = 10 + 50 * c + 6 * x + 19 * y + 31 * z
    elif cfg["enc"]["encoding"] == "jpeg":
        # the JPEG bound is calibrated on smooth ramps only
        v = 240 - 40 * c - 7 * x - 13 * y - 23 * z
    else:
        v = ((x + y + z + c) % 2) * 200 + 3 * c + 1
    if dt == "float32":
        v = v * 0.25
    elif dt in ("uint32", "uint64") and kind != "ramp":
        v = v.astype(dt) + np.dtype(dt).type(np.iinfo(dt).max - 1000)
    want = np.ascontiguousarray(v.astype(dt))
    assert want.shape == (nch, Z, Y, X)
    arr = want
    if kind != "ramp":
        if cfg["enc"]["encoding"] != "jpeg":
            arr = want.astype(np.dtype(dt).newbyteorder(">"))
        # non-contiguous view of a larger buffer
        big = np.zeros((nch, Z, Y, 2 * X), dtype=arr.dtype)
        big[..., ::2] = arr
        arr = big[..., ::2]
    elif kind == "ramp" and cc[0] == 0:
        # chunks starting at x = 0 are handed over Fortran-ordered (what a
        # transposed / moveaxis'd source array looks like)
        arr = np.asfortranarray(arr)
    return arr, want


def open_io(d, cfg, fresh):
    from neuroglancer_scripts import accessor, precomputed_io
    from neuroglancer_scripts import sharded_file_accessor
    sandbox.install_atexit_capture()
    a = cfg["acc"]
    if a["cls"] == "file":
        acc = accessor.get_accessor_for_url(d, {"flat": a["flat"],
                                                "gzip": a["gzip"]})
    elif fresh or a["strategy"] == "on disk":
        acc = accessor.get_accessor_for_url(d, {"sharding": True} if
                                            not fresh else {})
    else:
        acc = sharded_file_accessor.ShardedFileAccessor(
            d, strategy="in memory")
    sandbox.drop_captured_exit_handlers()
    eo = {k: cfg["enc"][k] for k in ("jpeg_plane", "jpeg_quality")
          if k in cfg["enc"]}
    return precomputed_io.get_IO_for_existing_dataset(acc,
                                                      encoder_options=eo)


def compare(cfg, got, want):
    """None if equal (within the JPEG bound), else a description"""
    if not isinstance(got, np.ndarray):
        return "not an array: %r" % type(got)
    if tuple(got.shape) != tuple(want.shape):
        return "shape %r != %r" % (tuple(got.shape), tuple(want.shape))
    if got.dtype.newbyteorder("=") != want.dtype.newbyteorder("=") \
            or got.dtype.byteorder == ">":
        return "dtype %r != little-endian %r" % (got.dtype, want.dtype)
    if cfg["enc"]["encoding"] == "jpeg":
        err = int(np.max(np.abs(got.astype(int) - want.astype(int)))) \
            if got.size else 0
        return None if err <= 8 else "max |error| %d > 8" % err
    if got.tobytes() != want.astype(got.dtype).tobytes():
        return "%d values differ" % int(np.count_nonzero(got != want))
    return None


def run_history(cfg, history, col, check=True):
    """execute on a fresh directory; returns (state key, n written) or
    None"""
    d = sandbox.fresh_dir("c03")
    case = {"dtype": cfg["dtype"], "channels": cfg["channels"],
            "enc": cfg["enc"], "acc": cfg["acc"],
            "two_scales": cfg["two_scales"], "history": history}
    if cfg.get("multi_cs"):
        case["multi_cs"] = True
    try:
        info = make_info(cfg)
        with open(os.path.join(d, "info"), "w") as f:
            json.dump(info, f)
        try:
            pio = open_io(d, cfg, fresh=False)
        except Exception as exc:
            col.violation("C03/open/exception/" + type(exc).__name__, case,
                          "PrecomputedIO", repr(exc)[:200])
            return None
        model = {}
        for si, cc, kind in history:
            arr, want = content(kind, cfg, cc)
            try:
                pio.write_chunk(arr, "s%d" % si, tuple(cc))
            except Exception as exc:
                col.violation("C03/write/exception/%s/%s" % (
                    type(exc).__name__, cfg["enc"]["encoding"]), case,
                    "written", repr(exc)[:200])
                return None
            model[(si, tuple(cc))] = want
            # a position that was just used on one scale is not thereby
            # valid on the other scale of the dataset
            if cfg["two_scales"]:
                other = 1 - si
                osz, ocs = (SIZE1, CS1) if other == 1 else (SIZE0, CS0)
                if not on_grid(tuple(cc), osz, ocs):
                    try:
                        ok_there = bool(pio.validate_chunk_coords(
                            "s%d" % other, tuple(cc)))
                    except Exception:
                        ok_there = False
                    if ok_there:
                        col.violation(
                            "C03/grid/off-grid-position-accepted/after-use-"
                            "on-another-scale", dict(case, probe=[
                                other, list(cc)]), False, True)
                        return None
        handles = []
        if cfg["acc"]["cls"] == "file":
            handles.append(("same", pio))
        else:
            try:
                with sandbox.quiet():
                    pio.accessor.close()
            except Exception as exc:
                col.violation("C03/close/exception/" + type(exc).__name__,
                              case, "closed", repr(exc)[:200])
                return None
        try:
            handles.append(("fresh", open_io(d, cfg, fresh=True)))
        except Exception as exc:
            col.violation("C03/reopen/exception/" + type(exc).__name__, case,
                          "PrecomputedIO", repr(exc)[:200])
            return None
        if check:
            allchunks = [(0, cc) for cc in pipeline.chunk_grid(SIZE0, CS0)]
            if cfg["two_scales"]:
                allchunks += [(1, cc) for cc in pipeline.chunk_grid(SIZE1,
                                                                    CS1)]
            if cfg.get("multi_cs"):
                allchunks += [(0, cc) for cc in pipeline.chunk_grid(
                    SIZE0, [4, 4, 4]) if (0, cc) not in allchunks]
            for hname, h in handles:
                held = []
                for si, cc in allchunks:
                    c2 = dict(case, read=[si, list(cc)], handle=hname)
                    try:
                        got = h.read_chunk("s%d" % si, cc)
                        err = None
                    except Exception as exc:
                        got, err = None, exc
                    if (si, cc) in model:
                        if err is not None:
                            col.violation(
                                "C03/read/written-chunk-not-readable/%s/%s"
                                % (type(err).__name__,
                                   cfg["enc"]["encoding"]), c2, "the array",
                                repr(err)[:200])
                        else:
                            why = compare(cfg, got, model[(si, cc)])
                            if why:
                                col.violation(
                                    "C03/read/differs-from-written/"
                                    + cfg["enc"]["encoding"], c2,
                                    "identical shape, dtype, values", why)
                            else:
                                held.append((c2, got, model[(si, cc)]))
                    elif err is None:
                        col.violation("C03/read/unwritten-chunk-returned-"
                                      "data", c2, "an error",
                                      "array of shape %r" % (got.shape,))
                # a caller that reads several chunks and then uses them: the
                # arrays returned earlier must still hold their values after
                # the later reads through the same handle
                for c2, got, want in held:
                    why = compare(cfg, got, want)
                    if why:
                        col.violation(
                            "C03/read/earlier-result-changed-by-a-later-"
                            "read/" + cfg["enc"]["encoding"], c2,
                            "the array as returned", why)
                        break
        key = repr((dir_tree(d), sorted((k, v.tobytes())
                                        for k, v in model.items())))
        return key, len(model)
    finally:
        sandbox.drop_captured_exit_handlers()
        sandbox.rm(d)


def explore(cfg, depth, col):
    menu = chunk_menu(cfg)
    seen = set()
    states = transitions = nontriv = maxd = 0
    before = col.r["violation_count"]
    for k in range(depth + 1):
        for sel in itertools.permutations(range(len(menu)), k):
            for kinds in itertools.product(CONTENTS, repeat=k):
                hist = [[menu[i][0], list(menu[i][1]), kinds[j]]
                        for j, i in enumerate(sel)]
                transitions += 1
                r = run_history(cfg, hist, col, check=True)
                if r is None:
                    continue
                if r[0] not in seen:
                    seen.add(r[0])
                    states += 1
                    maxd = max(maxd, k)
                    if r[1] >= 2:
                        nontriv += 1
    col.r["states"] += states
    col.r["transitions"] += transitions
    col.r["traces"] += transitions
    col.r["max_depth"] = max(col.r["max_depth"], maxd)
    bad = col.r["violation_count"] - before
    col.ev(transitions, nontriv, "config-ok" if not bad
           else "config-violating")


# ---- coordinate lattice ----------------------------------------------------
def on_grid(cc, size, cs):
    for a in range(3):
        lo, hi = cc[2 * a], cc[2 * a + 1]
        if not (isinstance(lo, int) and 0 <= lo < size[a]
                and lo % cs[a] == 0 and hi == min(lo + cs[a], size[a])):
            return False
    return True


def axis_values(s, c):
    return sorted({-c, -1, 0, 1, c - 1, c, c + 1, 2 * c, s - 1, s, s + 1})


def lattice_unit(col, size, cs, first_values):
    from neuroglancer_scripts import precomputed_io
    info = {"type": "image", "data_type": "uint8", "num_channels": 1,
            "scales": [{"key": "s0", "size": size, "chunk_sizes": [cs],
                        "resolution": [1, 1, 1], "voxel_offset": [0, 0, 0],
                        "encoding": "raw"}]}
    pio = precomputed_io.PrecomputedIO(info, None)
    vals = [axis_values(size[a], cs[a]) for a in range(3)]
    for xmin in first_values:
        for rest in itertools.product(vals[0], vals[1], vals[1], vals[2],
                                      vals[2]):
            cc = (xmin,) + rest
            want = on_grid(cc, size, cs)
            try:
                got = bool(pio.validate_chunk_coords("s0", cc))
            except Exception as exc:
                got = "exception " + type(exc).__name__
            nt = 1 if want else 0
            if got == want:
                col.ev(1, nt, "lattice-ok")
            else:
                col.ev(1, nt, "lattice-wrong")
                kind = ("valid-position-refused" if want else
                        "off-grid-position-accepted")
                col.violation("C03/grid/" + kind,
                              {"kind": "lattice", "size": size, "chunk": cs,
                               "coords": list(cc)}, want, got)


def lattice2_unit(col, size, css):
    """a scale listing two chunk sizes: a position is valid iff it lies on
    the grid of ONE of them (all three axes with the same chunk size)"""
    from neuroglancer_scripts import precomputed_io
    info = {"type": "image", "data_type": "uint8", "num_channels": 1,
            "scales": [{"key": "s0", "size": size, "chunk_sizes": css,
                        "resolution": [1, 1, 1], "voxel_offset": [0, 0, 0],
                        "encoding": "raw"}]}
    pio = precomputed_io.PrecomputedIO(info, None)
    vals = []
    for a in range(3):
        v = set()
        for cs in css:
            v |= {0, cs[a], 2 * cs[a], cs[a] - 1, size[a], size[a] - 1}
        vals.append(sorted(x for x in v if 0 <= x <= size[a]))
    for cc in itertools.product(vals[0], vals[0], vals[1], vals[1], vals[2],
                                vals[2]):
        want = any(on_grid(cc, size, cs) for cs in css)
        try:
            got = bool(pio.validate_chunk_coords("s0", cc))
        except Exception as exc:
            got = "exception " + type(exc).__name__
        nt = 1 if want else 0
        if got == want:
            col.ev(1, nt, "lattice-ok")
        else:
            col.ev(1, nt, "lattice-wrong")
            kind = ("valid-position-refused" if want else
                    "off-grid-position-accepted")
            col.violation("C03/grid/" + kind + "/two-chunk-sizes",
                          {"kind": "lattice2", "size": size, "chunks": css,
                           "coords": list(cc)}, want, got)


LATTICES2 = [([40, 36, 20], [[8, 8, 8], [16, 12, 4]]),
             ([9, 7, 5], [[4, 4, 4], [3, 7, 2]])]


def reject_unit(col, size, cs):
    """every rejected tuple one component away from a valid one is offered
    to write_chunk on a real dataset: must raise, tree must stay unchanged"""
    from neuroglancer_scripts import accessor, precomputed_io
    info = {"type": "image", "data_type": "uint8", "num_channels": 1,
            "scales": [{"key": "s0", "size": size, "chunk_sizes": [cs],
                        "resolution": [1, 1, 1], "voxel_offset": [0, 0, 0],
                        "encoding": "raw"}]}
    d = sandbox.fresh_dir("c03r")
    try:
        with open(os.path.join(d, "info"), "w") as f:
            json.dump(info, f)
        acc = accessor.get_accessor_for_url(d, {"flat": True, "gzip": False})
        pio = precomputed_io.get_IO_for_existing_dataset(acc)
        before = dir_tree(d)
        seen = set()
        for valid in pipeline.chunk_grid(size, cs):
            for comp in range(6):
                a = comp // 2
                for v in axis_values(size[a], cs[a]) + [valid[comp] + 0.5]:
                    cc = list(valid)
                    cc[comp] = v
                    cc = tuple(cc)
                    if cc in seen or on_grid(cc, size, cs):
                        continue
                    seen.add(cc)
                    shape = (1, max(1, int(cc[5] - cc[4])),
                             max(1, int(cc[3] - cc[2])),
                             max(1, int(cc[1] - cc[0])))
                    case = {"kind": "reject", "size": size, "chunk": cs,
                            "coords": list(cc)}
                    try:
                        pio.write_chunk(np.ones(shape, dtype="uint8"), "s0",
                                        cc)
                        raised = False
                    except Exception:
                        raised = True
                    after = dir_tree(d)
                    if not raised or after != before:
                        col.ev(1, 1, "reject-stored")
                        col.violation("C03/grid/off-grid-chunk-stored", case,
                                      "rejected, nothing written",
                                      "raised=%s tree_changed=%s"
                                      % (raised, after != before))
                        if after != before:
                            sandbox.rm(d)
                            os.makedirs(d)
                            with open(os.path.join(d, "info"), "w") as f:
                                json.dump(info, f)
                            before = dir_tree(d)
                    else:
                        col.ev(1, 1, "reject-ok")
    finally:
        sandbox.rm(d)


def configs(tier):
    out = []
    dtypes = ["uint8", "uint32"] if tier == "quick" else [
        "uint8", "uint16", "uint32", "uint64", "float32"]
    accs = ACCESSORS if tier == "thorough" else [ACCESSORS[0], ACCESSORS[1],
                                                  ACCESSORS[5], ACCESSORS[6],
                                                  ACCESSORS[7]]
    for dt in dtypes:
        for nch in (1, 2, 3):
            for enc in encodings(dt, nch):
                for acc in accs:
                    for two in (False, True):
                        if tier == "quick" and (
                                (nch == 2 and enc["encoding"] == "raw"
                                 and acc is not accs[0])
                                or (enc.get("jpeg_quality") == 100
                                    and acc is not accs[0])):
                            continue
                        out.append({"dtype": dt, "channels": nch, "enc": enc,
                                    "acc": acc, "two_scales": two})
                        if (not two and acc["cls"] == "file"
                                and enc["encoding"] != "jpeg"
                                and (tier == "thorough" or nch == 1)):
                            out.append({"dtype": dt, "channels": nch,
                                        "enc": enc, "acc": acc,
                                        "two_scales": False,
                                        "multi_cs": True})
    return out


LATTICES = [([5, 4, 3], [2, 2, 2]), ([3, 2, 2], [4, 4, 4]),
            ([7, 5, 1], [3, 2, 1])]


# ---- one directory, handles opened with different storage options ---------
REOPEN_OPTS = [{"flat": False, "gzip": True}, {"flat": False, "gzip": False},
               {"flat": True, "gzip": True}, {"flat": True, "gzip": False}]


def reopen_cases():
    out = []
    for dtype, enc in (("uint8", {"encoding": "raw"}),
                       ("uint32", {"encoding": "compressed_segmentation",
                                   "compressed_segmentation_block_size":
                                   [2, 2, 2]}),
                       ("uint8", {"encoding": "jpeg"})):
        for a in range(4):
            for b in range(4):
                if a != b and REOPEN_OPTS[a]["flat"] == REOPEN_OPTS[b]["flat"]:
                    out.append({"kind": "reopen", "dtype": dtype, "enc": enc,
                                "first": a, "second": b})
    return out


def _eval_reopen(col, case):
    """a chunk written through a handle with one compression setting, then
    written again (other content) through a handle opened on the same
    directory with the other setting: both handles and a fresh one must read
    the array written last"""
    from neuroglancer_scripts import accessor, precomputed_io
    cfg = {"dtype": case["dtype"], "channels": 1, "enc": case["enc"],
           "acc": dict(REOPEN_OPTS[case["first"]], cls="file"),
           "two_scales": False}
    d = sandbox.fresh_dir("c03r")
    try:
        with open(os.path.join(d, "info"), "w") as f:
            json.dump(make_info(cfg), f)
        cc = (0, 2, 0, 2, 0, 2)
        hs = []
        for k in ("first", "second"):
            acc = accessor.get_accessor_for_url(d, REOPEN_OPTS[case[k]])
            hs.append(precomputed_io.get_IO_for_existing_dataset(acc))
        a1, w1 = content("ramp", cfg, cc)
        a2, w2 = content("checker-be", cfg, cc)
        ok = True
        try:
            hs[0].write_chunk(a1, "s0", cc)
            hs[1].write_chunk(a2, "s0", cc)
        except Exception as exc:
            col.ev(1, 1, "reopen-bad")
            col.violation("C03/reopen/write-exception/"
                          + type(exc).__name__, case, "written",
                          repr(exc)[:200])
            return
        fresh = precomputed_io.get_IO_for_existing_dataset(
            accessor.get_accessor_for_url(d, REOPEN_OPTS[case["first"]]))
        for name, h in (("second-handle", hs[1]), ("first-handle", hs[0]),
                        ("fresh-handle", fresh)):
            try:
                why = compare(cfg, h.read_chunk("s0", cc), w2)
            except Exception as exc:
                why = repr(exc)[:160]
            if why:
                ok = False
                col.violation("C03/reopen/read-differs-from-the-last-write/"
                              + name, dict(case, handle=name),
                              "the array written last", why)
        col.ev(1, 1, "reopen-ok" if ok else "reopen-bad")
    finally:
        sandbox.rm(d)


def units(tier):
    depth = 3 if tier == "quick" else 4
    u = [{"kind": "config", "cfg": c, "depth": depth} for c in configs(tier)]
    lats = LATTICES[:1] if tier == "quick" else LATTICES
    for size, cs in lats:
        for v in axis_values(size[0], cs[0]):
            u.append({"kind": "lattice", "size": size, "chunk": cs,
                      "first": [v]})
        u.append({"kind": "reject", "size": size, "chunk": cs})
    for size, css in LATTICES2:
        u.append({"kind": "lattice2", "size": size, "chunks": css})
    u.append({"kind": "reopen"})
    return u


def space(tier):
    return {"configs": len(configs(tier)),
            "histories_per_config": sum(
                len(list(itertools.permutations(range(4), k))) * 2 ** k
                for k in range((3 if tier == "quick" else 4) + 1)),
            "lattice_tuples": 11 ** 6 * (1 if tier == "quick" else 3)}


def run_unit(u):
    col = Collector()
    if u["kind"] == "reopen":
        for c in reopen_cases():
            _eval_reopen(col, c)
        col.sample(reopen_cases()[0])
    elif u["kind"] == "config":
        explore(u["cfg"], u["depth"], col)
        col.sample({"cfg": u["cfg"], "history": [
            [0, [4, 5, 2, 4, 2, 3], "checker-be"]]})
    elif u["kind"] == "lattice2":
        lattice2_unit(col, u["size"], u["chunks"])
        col.sample({"kind": "lattice2", "size": u["size"],
                    "chunks": u["chunks"], "coords": [0, 8, 0, 8, 0, 8]})
    elif u["kind"] == "lattice":
        lattice_unit(col, u["size"], u["chunk"], u["first"])
        col.sample({"kind": "lattice", "size": u["size"], "chunk":
                    u["chunk"], "coords": [u["first"][0], 2, 0, 2, 0, 2]})
    else:
        reject_unit(col, u["size"], u["chunk"])
        col.sample({"kind": "reject", "size": u["size"]})
    return col.result()


def replay(case):
    col = Collector()
    if case.get("kind") == "reopen":
        c = {k: v for k, v in case.items() if k != "handle"}
        _eval_reopen(col, c)
        return [r for r in col.records()
                if r["case"].get("handle") == case.get("handle")]
    if case.get("kind") == "lattice2":
        lattice2_unit(col, case["size"], case["chunks"])
        return [r for r in col.records()
                if r["case"].get("coords") == case["coords"]]
    if case.get("kind") == "lattice":
        c = Collector()
        lattice_unit(c, case["size"], case["chunk"], [case["coords"][0]])
        return [r for r in c.records()
                if r["case"]["coords"] == case["coords"]]
    if case.get("kind") == "reject":
        c = Collector()
        reject_unit(c, case["size"], case["chunk"])
        return [r for r in c.records()
                if r["case"]["coords"] == case["coords"]]
    cfg = {k: case[k] for k in ("dtype", "channels", "enc", "acc",
                                "two_scales")}
    cfg["multi_cs"] = case.get("multi_cs", False)
    run_history(cfg, case["history"], col)
    recs = col.records()
    if "read" in case:
        recs = [r for r in recs if r["case"].get("read") == case["read"]
                and r["case"].get("handle") == case["handle"]] or recs
    return recs
