"""C18 - I/O failures and interrupted writes never yield silently wrong data.

E-DEV over the file-system seam (mc/env/iosim.py): a short history is run
fault-free to record every system call of the operation under test (the
points); then every point is given every alternative answer of its menu
(errno, short write, process death before/after the call), bound 1 in quick
and 2 in thorough, each deviating run executed to completion and checked.
"""
import errno
import json
import os

import numpy as np

from mc.env import iosim, sandbox
from mc.props.C12 import tree as dir_tree
from mc.runner import Collector

ID = "C18"
LEVEL = "fault_enumeration"
REQUIRED_CLASSES = ["fault-ok", "kill-ok"]
RULE = ("scenarios: file accessor (deep/flat x gzip/no-gzip) with 2 chunks "
        "+ info pre-stored, operation under test in {write a new chunk, "
        "overwrite a chunk, overwrite a chunk stored with the other "
        "compression, store_file octet-stream / json, read_chunk, "
        "fetch_file, file_exists present/absent; read_chunk with a stale .gz "
        "form of the chunk lying next to the current plain file}, raw and "
        "compressed_segmentation; sharded accessor (in-memory / on-disk "
        "buffers x raw/gzip) with one shard pre-written, operation in "
        "{write + close a new shard, rewrite + close the existing shard, "
        "read a chunk, rewrite while surviving failed stores (the caller "
        "catches the documented error classes, stores the remaining chunks "
        "and closes)}, the same with chunks of 8000 bytes, plus scenarios in which the temporary buffer "
        "files of the on-disk strategy are points as well. Points = every system call under the dataset root "
        "issued by the operation; menu per call kind: errno {ENOSPC, EACCES, "
        "EIO, EROFS | EIO, EACCES, ENOENT}, short write of 1 and n-1 bytes "
        "(retry fails with ENOSPC), kill before / after. Bound 1 (quick), "
        "bound 2 (thorough: fault->fault, short-write->kill, fault->kill). "
        "One evaluation = one deviating execution; all are non-trivial. "
        "Kernel-level family: the operation runs in a child process under "
        "strace; points = every read- and write-class system call on a file "
        "of the dataset, whoever issues it (Python's io layer or C code "
        "such as numpy.fromfile / ndarray.tofile, which the in-process seam "
        "cannot see); answers: EIO for reads, ENOSPC (thorough: and EIO) "
        "for writes, process killed before a write; bound 1; same oracles.")
ASSUMPTIONS = [
    "crash model = process death (SIGKILL) at system-call granularity with "
    "real user-space buffering; power loss with reordering of unsynced "
    "blocks is not modelled (the code never calls fsync)",
    "an injected ENOENT on an existence probe is a truthful 'absent' answer; "
    "a failed probe whose failure is ignored is accepted if the operation's "
    "result and the directory tree equal the fault-free ones",
    "after a crash any exception on reading counts as 'detectably invalid'; "
    "only wrong decoded values are violations",
]
HOW_TO_READ = ("case: scenario (accessor config, encoding, operation) + "
               "deviations {point index: answer}; point indices refer to "
               "the fault-free run of the operation (listed in 'points' of "
               "the replay output)")

A = (0, 2, 0, 2, 0, 2)
B = (2, 3, 0, 2, 0, 2)
C = (0, 2, 2, 4, 0, 2)
KEY = "s0"


def info_file(enc):
    s = {"key": KEY, "size": [3, 4, 2], "chunk_sizes": [[2, 2, 2]],
         "resolution": [1, 1, 1], "voxel_offset": [0, 0, 0],
         "encoding": enc}
    if enc == "compressed_segmentation":
        s["compressed_segmentation_block_size"] = [2, 2, 2]
    return {"type": "image", "num_channels": 1,
            "data_type": "uint32" if enc != "raw" else "uint16",
            "scales": [s]}


def arr(cc, version, dtype):
    X, Y, Z = cc[1] - cc[0], cc[3] - cc[2], cc[5] - cc[4]
    n = X * Y * Z
    base = 1000 * version + 7 * cc[0] + 13 * cc[2]
    return (np.arange(n) + base).astype(dtype).reshape(1, Z, Y, X)


def file_scenarios():
    out = []
    for flat in (False, True):
        for gz in (True, False):
            for enc in ("raw", "compressed_segmentation"):
                ops = ["write-new", "overwrite", "store-file-octet",
                       "store-file-json", "read", "fetch-info",
                       "exists-present", "exists-absent"]
                if gz:
                    ops.append("overwrite-other-compression")
                if enc != "raw":
                    ops = ["write-new", "overwrite", "read"]
                for op in ops:
                    out.append({"kind": "file", "flat": flat, "gzip": gz,
                                "encoding": enc, "op": op})
    # reading a chunk whose older .gz form was left next to the current
    # plain file
    for flat in (False, True):
        out.append({"kind": "file", "flat": flat, "gzip": False,
                    "encoding": "raw", "op": "read",
                    "stale_gz_sibling": True})
    return out


def sharded_scenarios():
    out = []
    for strategy in ("in memory", "on disk"):
        for enc in ("raw", "gzip"):
            for op in ("write-new-shard", "rewrite-shard", "read"):
                out.append({"kind": "sharded", "strategy": strategy,
                            "enc": enc, "op": op})
    # the temp buffers of the on-disk strategy are I/O of store/close too
    for op in ("write-new-shard", "rewrite-shard",
               "rewrite-shard-keep-going"):
        out.append({"kind": "sharded", "strategy": "on disk", "enc": "raw",
                    "op": op, "watch_tmp": True})
    out.append({"kind": "sharded", "strategy": "on disk", "enc": "gzip",
                "op": "rewrite-shard-keep-going"})
    # 8000-byte chunks
    for strategy in ("in memory", "on disk"):
        for op in ("rewrite-shard", "write-new-shard", "read"):
            out.append({"kind": "sharded", "strategy": strategy,
                        "enc": "raw", "op": op, "big": True})
    return out


# ---- sharded helpers --------------------------------------------------------
SH_SIZE = [4, 2, 1]
# scenarios with "big": the same 4x2x1 chunk grid with chunks of 20^3 uint8
# voxels (8000 bytes each: a shard's data area exceeds 8 KiB and chunk
# boundaries do not coincide with the 4096/8192-byte write blocks)
_BIG = [False]
BIG_CS = 20


def sh_info(enc):
    if _BIG[0]:
        info = sh_info_small(enc)
        info["data_type"] = "uint8"
        info["scales"][0]["size"] = [s * BIG_CS for s in SH_SIZE]
        info["scales"][0]["chunk_sizes"] = [[BIG_CS] * 3]
        return info
    return sh_info_small(enc)


def sh_info_small(enc):
    return {"type": "image", "num_channels": 1, "data_type": "uint16",
            "scales": [{"key": KEY, "size": SH_SIZE,
                        "chunk_sizes": [[1, 1, 1]], "resolution": [1, 1, 1],
                        "voxel_offset": [0, 0, 0], "encoding": "raw",
                        "sharding": {
                            "@type": "neuroglancer_uint64_sharded_v1",
                            "hash": "identity", "minishard_bits": 1,
                            "shard_bits": 1, "preshift_bits": 1,
                            "minishard_index_encoding": enc,
                            "data_encoding": enc}}]}


def sh_chunks():
    from mc.oracle import morton_spec
    out = []
    for y in range(2):
        for x in range(4):
            cid = morton_spec.compressed_morton_code((x, y, 0), (4, 2, 1))
            shard, _ = morton_spec.route(cid, 1, 1, 1)
            k = BIG_CS if _BIG[0] else 1
            out.append(((x * k, (x + 1) * k, y * k, (y + 1) * k, 0, k),
                        shard))
    return out


def sh_arr(cc, version):
    if _BIG[0]:
        n = BIG_CS ** 3
        base = 40 * version + 7 * (cc[0] // BIG_CS) + 3 * (cc[2] // BIG_CS)
        return ((np.arange(n) * 5 + base) % 251).astype("uint8").reshape(
            1, BIG_CS, BIG_CS, BIG_CS)
    return np.array([[[[100 * version + 10 * cc[0] + cc[2] + 1]]]],
                    dtype="uint16")


# ---- scenario execution -----------------------------------------------------
def open_pio(d, scn, fresh=False):
    from neuroglancer_scripts import accessor, precomputed_io
    from neuroglancer_scripts import sharded_file_accessor
    sandbox.install_atexit_capture()
    if scn["kind"] == "file":
        acc = accessor.get_accessor_for_url(d, {"flat": scn["flat"],
                                                "gzip": scn["gzip"]})
    elif fresh or scn["strategy"] == "on disk":
        acc = accessor.get_accessor_for_url(d)
    else:
        acc = sharded_file_accessor.ShardedFileAccessor(
            d, strategy="in memory")
    sandbox.drop_captured_exit_handlers()
    return precomputed_io.get_IO_for_existing_dataset(acc)


def setup(d, scn):
    """fault-free pre-population; returns model {name: expected}"""
    model = {}
    if scn["kind"] == "file":
        info = info_file(scn["encoding"])
        dt = info["data_type"]
        with open(os.path.join(d, "info"), "w") as f:
            json.dump(info, f)
        pio = open_pio(d, scn)
        for cc in (A, B):
            if cc == A and scn["op"] == "overwrite-other-compression":
                other = dict(scn, gzip=not scn["gzip"])
                open_pio(d, other).write_chunk(arr(cc, 1, dt), KEY, cc)
            else:
                pio.write_chunk(arr(cc, 1, dt), KEY, cc)
            model[cc] = [arr(cc, 1, dt)]
        if scn.get("stale_gz_sibling"):
            # what an interrupted "store again, uncompressed" leaves behind:
            # the new plain chunk AND the older .gz form of the same chunk
            # (readers prefer the plain file)
            import gzip
            rel = ("%d-%d_%d-%d_%d-%d" if scn["flat"]
                   else "%d-%d/%d-%d/%d-%d") % A
            with gzip.open(os.path.join(d, KEY, rel + ".gz"), "wb") as f:
                f.write(arr(A, 0, dt).astype(
                    np.dtype(dt).newbyteorder("<")).tobytes())
        model[C] = [None]
        pio.accessor.store_file("mesh/old", b"OLD" * 20)
        model["mesh/old"] = [b"OLD" * 20]
        with open(os.path.join(d, "info"), "rb") as f:
            model["info"] = [f.read()]
        return model
    info = sh_info(scn["enc"])
    with open(os.path.join(d, "info"), "w") as f:
        json.dump(info, f)
    pio = open_pio(d, scn)
    for cc, shard in sh_chunks():
        if shard == 0:
            pio.write_chunk(sh_arr(cc, 1), KEY, cc)
            model[cc] = [sh_arr(cc, 1)]
        else:
            model[cc] = [None]
    with sandbox.quiet():
        pio.accessor.close()
    return model


def operation(d, scn, model):
    """the operation under test; returns (result, in-flight versions)"""
    _BIG[0] = bool(scn.get("big"))
    op = scn["op"]
    if scn["kind"] == "file":
        dt = info_file(scn["encoding"])["data_type"]
        pio = open_pio(d, scn)
        if op == "write-new":
            model[C].append(arr(C, 2, dt))
            return pio.write_chunk(arr(C, 2, dt), KEY, C)
        if op in ("overwrite", "overwrite-other-compression"):
            model[A].append(arr(A, 2, dt))
            return pio.write_chunk(arr(A, 2, dt), KEY, A)
        if op == "store-file-octet":
            model["mesh/new"] = [None, b"NEW" * 30]
            return pio.accessor.store_file("mesh/new", b"NEW" * 30)
        if op == "store-file-json":
            model["mesh/7:0"] = [None, b'{"fragments":["new"]}']
            return pio.accessor.store_file(
                "mesh/7:0", b'{"fragments":["new"]}',
                mime_type="application/json")
        if op == "read":
            return pio.read_chunk(KEY, A).tobytes()
        if op == "fetch-info":
            return pio.accessor.fetch_file("info")
        if op == "exists-present":
            return pio.accessor.file_exists("info")
        if op == "exists-absent":
            return pio.accessor.file_exists("nope")
        raise ValueError(op)
    pio = open_pio(d, scn)
    _LAST["acc"] = pio.accessor
    if op == "write-new-shard":
        for cc, shard in sh_chunks():
            if shard == 1:
                model[cc].append(sh_arr(cc, 2))
                pio.write_chunk(sh_arr(cc, 2), KEY, cc)
        _LAST["stores_done"] = True
        with sandbox.quiet():
            return _close(pio.accessor)
    if op == "rewrite-shard":
        for cc, shard in sh_chunks()[::-1]:
            if shard == 0:
                model[cc].append(sh_arr(cc, 2))
                pio.write_chunk(sh_arr(cc, 2), KEY, cc)
        _LAST["stores_done"] = True
        with sandbox.quiet():
            return _close(pio.accessor)
    if op == "rewrite-shard-keep-going":
        # a caller that survives failed stores (catches the documented
        # error classes), stores the remaining chunks and then closes
        from neuroglancer_scripts.accessor import DataAccessError
        failed = 0
        for cc, shard in sh_chunks()[::-1]:
            if shard == 0:
                model[cc].append(sh_arr(cc, 2))
                try:
                    pio.write_chunk(sh_arr(cc, 2), KEY, cc)
                except (DataAccessError, OSError):
                    failed += 1
        _LAST["stores_done"] = not failed
        with sandbox.quiet():
            return _close(pio.accessor)
    if op == "read":
        cc = sh_chunks()[1][0]
        return pio.read_chunk(KEY, cc).tobytes()
    raise ValueError(op)


_LAST = {}


def _close(acc):
    """what process exit does: the registered exit handler of a sharded
    accessor; a plain accessor has nothing to flush"""
    if hasattr(acc, "close"):
        return acc.close()
    return None


def target_paths(scn):
    """path fragments that identify the operation's own target"""
    op = scn["op"]
    if scn["kind"] == "sharded":
        return {"write-new-shard": ["1.shard"], "rewrite-shard": ["0.shard"],
                "rewrite-shard-keep-going": ["0.shard"], "read": []}[op]
    if op == "write-new":
        return ["0-2_2-4_0-2", "0-2/2-4/0-2"]
    if op in ("overwrite", "overwrite-other-compression"):
        return ["0-2_0-2_0-2", "0-2/0-2/0-2"]
    if op == "store-file-octet":
        return ["mesh/new"]
    if op == "store-file-json":
        return ["mesh/7:0"]
    return []


class _NoSim:
    """stock open()/os: used to bind _pyio.open to the C io module"""
    points = ()
    applied = ()
    opened_for_write = ()
    deviations = {}

    def __enter__(self):
        return self

    def __exit__(self, *a):
        return False


def execute(scn, deviations, use_sim=True):
    """one execution. returns dict(outcome, points, tree, obs, applied, ...)
    """
    d = sandbox.fresh_dir("c18")
    _BIG[0] = bool(scn.get("big"))
    try:
        model = setup(d, scn)
        tmpd = None
        if scn["kind"] == "sharded" and scn["strategy"] == "on disk" \
                and scn.get("watch_tmp"):
            import tempfile
            tmpd = sandbox.fresh_dir("c18t")
            old_tmp = tempfile.tempdir
            tempfile.tempdir = tmpd
        sim = iosim.IOSim(d, extra_root=tmpd) if use_sim else _NoSim()
        sim.deviations = dict(deviations)
        outcome = None
        with sim:
            try:
                res = operation(d, scn, model)
                outcome = ("ok", res if isinstance(res, (bytes, bool))
                           or res is None else repr(res))
            except iosim.Killed:
                outcome = ("killed",)
            except BaseException as exc:
                outcome = ("exc", type(exc).__name__, str(exc)[:120],
                           [c.__name__ for c in type(exc).__mro__])
        # A sharded accessor registers its close() as an exit handler: after
        # a failed operation the interpreter (or a caller retrying) calls
        # close() once more, now without any fault. If that call returns
        # normally it claims that everything was written.
        retry = None
        stores_done = bool(_LAST.get("stores_done"))
        tree_pre = dir_tree(d)      # what the failed operation itself left
        if (scn["kind"] == "sharded" and scn["op"] != "read"
                and outcome[0] == "exc" and use_sim
                and _LAST.get("acc") is not None
                and hasattr(_LAST["acc"], "close")):
            try:
                with sandbox.quiet():
                    _LAST["acc"].close()
                retry = ("ok", stores_done)
            except BaseException as exc:
                retry = ("exc", type(exc).__name__)
        _LAST.clear()
        sandbox.drop_captured_exit_handlers()
        if tmpd is not None:
            import tempfile
            tempfile.tempdir = old_tmp
            sandbox.rm(tmpd)
        t = dir_tree(d)
        # observations with a fresh handle, faults off
        obs = {}
        try:
            rd = open_pio(d, scn, fresh=True)
        except Exception as exc:
            rd = None
            obs["open"] = ("exc", type(exc).__name__)
        if rd is not None:
            for name in model:
                try:
                    if isinstance(name, tuple):
                        obs[name] = ("ok", rd.read_chunk(KEY, name))
                    else:
                        obs[name] = ("ok", rd.accessor.fetch_file(name))
                except Exception as exc:
                    obs[name] = ("exc", type(exc).__name__)
        return {"outcome": outcome, "retry": retry, "tree_pre": tree_pre,
                "points": list(sim.points), "tree": t,
                "obs": obs, "model": model, "applied": list(sim.applied),
                "opened_for_write": list(sim.opened_for_write)}
    finally:
        sandbox.drop_captured_exit_handlers()
        sandbox.rm(d)


def matches(observed, version):
    if version is None:
        return observed[0] == "exc"
    if observed[0] != "ok":
        return False
    got = observed[1]
    if isinstance(version, bytes):
        return bytes(got) == version
    return (isinstance(got, np.ndarray) and got.shape == version.shape
            and got.dtype.newbyteorder("=") == version.dtype.newbyteorder(
                "=") and np.array_equal(got, version))


def absent_part(devs, points):
    """the deviations that are truthful 'absent' answers (ENOENT on a
    probe), as opposed to I/O failures"""
    return {k: d for k, d in devs.items()
            if d == ("errno", errno.ENOENT) and k < len(points)
            and points[k][0] in ("stat", "open-r")}


def judge(col, case, scn, ref, run, devs):
    """oracles A (fault) and B (kill) on one deviating run"""
    ok = True
    out = run["outcome"]
    killed = out[0] == "killed"
    kinds = [d[0] for d in devs.values()]
    is_store = scn["op"] not in ("read", "fetch-info", "exists-present",
                                 "exists-absent")
    tp = target_paths(scn)
    target_opened = any(any(frag in p for frag in tp)
                        for p in run["opened_for_write"])
    if run.get("retry") is not None:
        # the close() repeated after the failure ran without the seam and
        # may itself have opened (and written) the target
        target_opened = True

    def bad(sig, exp, obs):
        nonlocal ok
        ok = False
        col.violation("C18/" + sig, case, exp, obs)

    if not killed:
        if out[0] == "exc":
            mro = out[3]
            if "DataAccessError" not in mro and "OSError" not in mro:
                bad("fault/unrelated-exception/%s/%s" % (
                    out[1], "store" if is_store else "fetch"),
                    "DataAccessError or an OSError", out[:3])
        else:
            same = (run["tree"] == ref["tree"]
                    and out == ref["outcome"])
            if not same and out == ref["outcome"]:
                # the operation did everything the fault-free run does -
                # every file of the fault-free tree is there with the same
                # bytes - and only left something extra behind (e.g. a
                # staging file whose removal failed): it has succeeded, so
                # returning normally is not "as if it had succeeded"
                # and a fresh reader sees the new version of everything
                rt = dict(run["tree"])
                same = (all(rt.get(pth) == data
                            for pth, data in ref["tree"])
                        and all(matches(run["obs"].get(nm, ("exc", "?")),
                                        vs[-1])
                                for nm, vs in run["model"].items()))
            # an injected ENOENT on a probe (stat / open for reading) is a
            # truthful "absent" answer of the environment, not an I/O
            # failure: whatever the operation then does is judged by the
            # data oracles below only
            # (with two deviations the effect of the real failure cannot be
            # separated from the effect of the "absent" answer, so the check
            # is skipped as soon as one such answer is present)
            truthful_absent = len(absent_part(devs, run["points"])) > 0
            if not same and not truthful_absent and run["applied"]:
                bad("fault/returned-normally-after-an-io-failure/%s" % (
                    "store" if is_store else "fetch"),
                    "an error, or a result and tree identical to the "
                    "fault-free ones", "result %r, tree %s" % (
                        out[1] if not isinstance(out[1], bytes)
                        else out[1][:20], "same" if run["tree"]
                        == ref["tree"] else "differs"))
    # ---- the exit handler / a retry after the failed operation
    if run.get("retry") == ("ok", True):
        # every chunk had been handed over and only close() failed: a later
        # close() that returns normally claims that all of them are written
        for name, versions in run["model"].items():
            if len(versions) > 1:
                o = run["obs"].get(name, ("exc", "?"))
                if not matches(o, versions[-1]):
                    bad("fault/close-after-a-failed-close-returned-normally-"
                        "without-writing", "the new data written, or an "
                        "error", "%s: %r" % (name, o[:2] if o[0] == "exc"
                                             else "old data"))
                    break
    # ---- what a later reader sees
    for name, versions in run["model"].items():
        o = run["obs"].get(name, run["obs"].get("open", ("exc", "?")))
        is_target = len(versions) > 1
        if not is_target:
            if not matches(o, versions[0]):
                bad("%s/earlier-data-not-intact" % (
                    "crash" if killed else "fault"),
                    "unchanged and readable", "%s: %r" % (name, o[:2]
                                                          if o[0] == "exc"
                                                          else "other data"))
            continue
        if (isinstance(versions[-1], bytes) and o[0] == "ok"
                and versions[-1].startswith(bytes(o[1]))):
            # a non-chunk file torn by the failed / interrupted write: the
            # statement's "detectably invalid" clause is about chunks (which
            # have decoders); a prefix of the new bytes is not wrong data
            continue
        if any(matches(o, v) for v in versions):
            # old or new version. After a fault that hit before the target
            # was ever opened for writing the old version must survive
            if (not killed and not target_opened and versions[0] is not None
                    and out[0] == "exc" and not matches(o, versions[0])):
                bad("fault/failed-store-changed-the-target-before-opening-"
                    "it", "old version intact", "new version visible")
            continue
        if o[0] == "exc":
            if (not killed and out[0] == "exc" and not target_opened
                    and versions[0] is not None):
                bad("fault/failed-store-destroyed-the-existing-version",
                    "the old version (the target was never opened for "
                    "writing)", "%s: %s" % (name, o[1]))
            continue        # absent or detectably invalid
        bad("%s/wrong-data-read-back" % ("crash" if killed else "fault"),
            "old version, new version, absent or an error",
            "%s decodes to other values" % (name,))
    return ok


def mask_points(a, b):
    """point list with the path components that differ between two
    fault-free runs (random temporary names) replaced by '*'; None if the
    two runs differ in more than such names"""
    if len(a) != len(b):
        return None
    out = []
    for (na, pa), (nb, pb) in zip(a, b):
        ca, cb = pa.split("/"), pb.split("/")
        if na != nb or len(ca) != len(cb):
            return None
        out.append((na, tuple(x if x == y else "*" for x, y in zip(ca, cb))))
    return out


def prefix_matches(pts, mask, upto):
    """do the first `upto` points of a run follow the masked recording?"""
    if len(pts) < upto or len(mask) < upto:
        return False
    for (n, p), (mn, mc) in zip(pts[:upto], mask[:upto]):
        c = p.split("/")
        if n != mn or len(c) != len(mc) or any(
                m != "*" and m != x for x, m in zip(c, mc)):
            return False
    return True


def explore(col, scn, tier):
    ref = execute(scn, {})
    case0 = {"scenario": scn}
    if ref["outcome"][0] != "ok":
        col.ev(1, 0, "setup-or-op-fails-fault-free/" + str(
            ref["outcome"][1]))
        col.violation("C18/fault-free-run-fails/" + str(ref["outcome"][1]),
                      dict(case0, deviations={}), "success",
                      ref["outcome"][:3])
        return
    # determinism of the recording
    again = execute(scn, {})
    mask = mask_points(ref["points"], again["points"])
    if mask is None or again["tree"] != ref["tree"]:
        raise RuntimeError("fault-free run is not reproducible: %r vs %r"
                           % (again["points"], ref["points"]))
    # _pyio.open <-> C io: the same history with the stock open() must
    # produce the same tree and result
    stock = execute(scn, {}, use_sim=False)
    if stock["tree"] != ref["tree"] or stock["outcome"] != ref["outcome"]:
        raise RuntimeError("seam changes the fault-free behaviour: %r vs %r"
                           % (stock["outcome"], ref["outcome"]))
    col.extra("pyio_vs_c_io_trees_compared")
    pts = ref["points"]
    col.extra("points", len(pts))
    singles = [(k, a) for k in range(len(pts))
               for a in iosim.menu_for(pts[k])]
    nruns = 0

    def one(devs, prefix_pts):
        """execute, check the replayed prefix, judge"""
        nonlocal nruns
        nruns += 1
        case = dict(case0, deviations={str(k): list(a)
                                       for k, a in devs.items()})
        run = execute(scn, devs)
        k_last = max(devs)
        k_first = min(devs)
        if len(run["applied"]) == len(devs) and not prefix_matches(
                run["points"], mask, k_first + 1):
            raise RuntimeError("prefix divergence: %r vs %r" % (
                run["points"][:k_first + 1], mask[:k_first + 1]))
        if len(run["applied"]) < len(devs):
            col.ev(1, 1, "deviation-not-reached")
            return run
        good = judge(col, case, scn, ref, run, devs)
        killed = run["outcome"][0] == "killed"
        col.ev(1, 1, ("kill-" if killed else "fault-")
               + ("ok" if good else "bad"))
        return run

    for k1, a1 in singles:
        run1 = one({k1: a1}, pts)
        if tier != "thorough" or a1[0].startswith("kill"):
            continue
        # bound 2: the second deviation is placed at every later point of
        # THIS run (points created after the first deviation, e.g. the retry
        # after a short write, are discovered here)
        pts1 = run1["points"]
        for k2 in range(k1 + 1, len(pts1)):
            for a2 in iosim.menu_for(pts1[k2]):
                if a2[0] == "short" and a1[0] == "short":
                    continue
                one({k1: a1, k2: a2}, pts1)
    col.extra("deviating_runs", nruns)


# ---- conformance of the seam with the kernel (DESIGN section 6) -----------
def conformance_candidates(scns=None):
    """all single deviations that strace can inject, in scenario order"""
    from mc import conformance
    out = []
    for scn in (scns or (file_scenarios() + sharded_scenarios())):
        if scn["kind"] == "sharded" and (scn["strategy"] == "in memory"
                                         or scn.get("watch_tmp")):
            continue      # the child opens the dataset the documented way
        ref = execute(scn, {})
        pts = ref["points"]
        mask = mask_points(pts, execute(scn, {})["points"])
        for k in range(len(pts)):
            if mask is None or "*" in mask[k][1]:
                continue      # a random temporary name cannot be targeted
            for dev in iosim.menu_for(pts[k]):
                if conformance.expressible(pts, k, dev):
                    out.append((scn, k, list(dev)))
    return out


def conformance_unit(col, items):
    from mc import conformance, runner
    ok, why = conformance.strace_available()
    if not ok:
        col.ev(len(items), 0, "conformance-skipped")
        col.r["extra"]["conformance_skipped_reason"] = 0
        return
    for scn, k, dev in items:
        dev = tuple(dev)
        ref = execute(scn, {})
        pts = ref["points"]
        sim_run = execute(scn, {k: dev})
        d = sandbox.fresh_dir("c18c")
        try:
            setup(d, scn)
            res = conformance.run_c18_op(
                d, scn, runner.scratch_root(),
                conformance.strace_args(d, pts, k, dev))
            real_tree = dir_tree(d)
        finally:
            sandbox.rm(d)
        so = sim_run["outcome"]
        sim_kind = {"ok": "ok", "exc": "exc", "killed": "killed"}[so[0]]
        if scn.get("big"):
            # writes larger than the 8 KiB buffer are cut into system calls
            # differently by the C and the pure-Python buffered writers, so
            # the k-th write() does not carry the same bytes: only outcome
            # and file names are compared for these scenarios
            trees_agree = ([p for p, _ in real_tree]
                           == [p for p, _ in sim_run["tree_pre"]])
        else:
            trees_agree = real_tree == sim_run["tree_pre"]
        same = (res["outcome"] == sim_kind
                and (sim_kind != "exc" or res.get("type") == so[1])
                and trees_agree)
        if not same:
            raise RuntimeError(
                "seam/kernel mismatch for %r point %d %r dev %r: seam -> "
                "%r, tree %r; strace -> %r, tree %r" % (
                    scn, k, pts[k], dev, so[:2],
                    [p for p, _ in sim_run["tree_pre"]], res,
                    [p for p, _ in real_tree]))
        col.ev(1, 1, "conformance-ok")
        col.extra("conformance_replays")


# ---- kernel-level enumeration ----------------------------------------------
# The seam sees the system calls Python's own io layer makes. I/O issued by C
# code (numpy.fromfile / ndarray.tofile, a C extension) is invisible to it, so
# a second enumeration runs at the kernel: the operation is executed in a
# child process under strace, every read- and write-class system call it
# makes on a file of the dataset is a point, and each point is answered by an
# error (or the process is killed before it), one deviation per run.
def kernel_scenarios(tier):
    out = []
    for scn in file_scenarios() + sharded_scenarios():
        if scn.get("watch_tmp"):
            continue
        if tier == "quick":
            # quick: the sharded scenarios (small chunks) and the raw,
            # sub-directory file scenarios
            if scn["kind"] == "file" and (scn["encoding"] != "raw"
                                          or scn["flat"]):
                continue
            if scn.get("big"):
                continue
        out.append(scn)
    return out


def _observe(d, scn, model):
    obs = {}
    try:
        rd = open_pio(d, scn, fresh=True)
    except Exception as exc:
        return {"open": ("exc", type(exc).__name__)}
    for name in model:
        try:
            if isinstance(name, tuple):
                obs[name] = ("ok", rd.read_chunk(KEY, name))
            else:
                obs[name] = ("ok", rd.accessor.fetch_file(name))
        except Exception as exc:
            obs[name] = ("exc", type(exc).__name__)
    sandbox.drop_captured_exit_handlers()
    return obs


def _kernel_outcome(res):
    if res["outcome"] == "ok":
        return ("ok", res.get("result"))
    if res["outcome"] == "exc":
        return ("exc", res["type"], "", res["mro"])
    if res["outcome"] == "killed":
        return ("killed",)
    raise RuntimeError("child of the kernel-level run failed: %r" % (res,))


def kernel_point(col, scn, full_model, ref, point, what):
    from mc import conformance, runner
    cls, rel, when = point
    case = {"scenario": scn, "deviations": {},
            "kernel": {"class": cls, "file": rel, "when": when,
                       "answer": what}}
    d = sandbox.fresh_dir("c18k")
    try:
        setup(d, scn)
        res, injected = conformance.kernel_inject(
            d, scn, runner.scratch_root(), cls, rel, when, what)
        if not injected:
            col.ev(1, 1, "deviation-not-reached")
            return
        out = _kernel_outcome(res)
        run = {"outcome": out, "retry": None, "tree": dir_tree(d),
               "obs": _observe(d, scn, full_model), "model": full_model,
               "applied": [(0, what)], "points": [],
               "opened_for_write": list(target_paths(scn)) or ["?"]}
        if scn["kind"] == "sharded" and scn["op"] != "read":
            run["retry"] = ("unknown",)     # -> the target counts as opened
        good = judge(col, case, scn, ref, run,
                     {0: ("kill-before",) if out[0] == "killed"
                      else ("errno", what)})
        col.ev(1, 1, ("kernel-kill-" if out[0] == "killed"
                      else "kernel-fault-") + ("ok" if good else "bad"))
    finally:
        sandbox.drop_captured_exit_handlers()
        sandbox.rm(d)


def kernel_reference(scn):
    """fault-free child run under strace: (points, reference run) or None"""
    from mc import conformance, runner
    d = sandbox.fresh_dir("c18k")
    try:
        setup(d, scn)
        calls, res = conformance.kernel_calls(d, scn, runner.scratch_root())
        if res["outcome"] != "ok":
            raise RuntimeError("fault-free kernel-level run fails: %r"
                               % (res,))
        ref = {"outcome": _kernel_outcome(res), "tree": dir_tree(d)}
    finally:
        sandbox.drop_captured_exit_handlers()
        sandbox.rm(d)
    seen = {}
    points = []
    for cls, rel in calls:
        seen[(cls, rel)] = seen.get((cls, rel), 0) + 1
        points.append((cls, rel, seen[(cls, rel)]))
    return points, ref


def kernel_answers(cls, tier):
    if cls == "read":
        return ["error=EIO"]
    a = ["error=ENOSPC", "signal=SIGKILL"]
    if tier == "thorough":
        a.insert(1, "error=EIO")
    return a


def kernel_unit(col, scn, tier):
    from mc import conformance
    ok, why = conformance.strace_available()
    if not ok:
        col.ev(1, 0, "kernel-family-skipped")
        return
    full_model = execute(scn, {})["model"]
    points, ref = kernel_reference(scn)
    col.extra("kernel_points", len(points))
    for pt in points:
        for what in kernel_answers(pt[0], tier):
            kernel_point(col, scn, full_model, ref, pt, what)


def units(tier):
    u = [{"scn": s, "tier": tier}
         for s in file_scenarios() + sharded_scenarios()]
    u.append({"kind": "conformance-plan", "tier": tier})
    u += [{"kind": "kernel", "scn": s, "tier": tier}
          for s in kernel_scenarios(tier)]
    return u


def space(tier):
    return {"file_scenarios": len(file_scenarios()),
            "sharded_scenarios": len(sharded_scenarios()),
            "kernel_level_scenarios": len(kernel_scenarios(tier)),
            "bound": 1 if tier == "quick" else 2}


def run_unit(u):
    col = Collector()
    if u.get("kind") == "kernel":
        kernel_unit(col, u["scn"], u["tier"])
        col.sample({"scenario": u["scn"], "deviations": {},
                    "kernel": {"class": "write", "file": "info", "when": 1,
                               "answer": "error=ENOSPC"}})
        return col.result()
    if u.get("kind") == "conformance-plan":
        # a deterministic subset validates the SEAM (it does not decide the
        # property): 12 deviations in quick, every 7th in thorough
        cands = conformance_candidates()
        if u["tier"] == "quick":
            step = max(1, len(cands) // 12)
            picks = cands[::step][:12]
        else:
            picks = []      # thorough: done per scenario unit (parallel)
        conformance_unit(col, picks)
        col.extra("conformance_candidates", len(cands))
        col.sample({"conformance": picks[0] if picks else None})
        return col.result()
    explore(col, u["scn"], u["tier"])
    if u["tier"] == "thorough":
        cands = conformance_candidates([u["scn"]])
        off = sum(map(ord, json.dumps(u["scn"], sort_keys=True))) % 7
        conformance_unit(col, cands[off::7])
        col.extra("conformance_candidates", len(cands))
    col.sample({"scenario": u["scn"], "deviations": {"7": ["kill-after"]}})
    return col.result()


def replay(case):
    col = Collector()
    scn = case["scenario"]
    ref = execute(scn, {})
    devs = {int(k): tuple(a) for k, a in case["deviations"].items()}
    if case.get("kernel"):
        k = case["kernel"]
        full_model = ref["model"]
        points, kref = kernel_reference(scn)
        kernel_point(col, scn, full_model, kref,
                     (k["class"], k["file"], k["when"]), k["answer"])
        return col.records()
    if not devs:
        if ref["outcome"][0] != "ok":
            col.violation("C18/fault-free-run-fails/" + str(
                ref["outcome"][1]), case, "success", ref["outcome"][:3])
        return col.records()
    run = execute(scn, devs)
    judge(col, case, scn, ref, run, devs)
    return col.records()
