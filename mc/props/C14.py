"""C14 - reading over HTTP gives the same bytes as reading the files locally.

E-DEV over the HTTP seam (mc/env/httpsim.py): datasets written by the real
file accessors are served as static files the documented way. 0 deviations:
every info and chunk through every URL spelling equals the local accessor's
bytes; dispatch to the sharded reader iff the served info declares sharding
for every scale. 1 (quick) / 2 (thorough) deviations: every request of a
fetch/exists history is answered from the fault menu.
"""
import itertools
import json
import os
import shutil

from mc import sharded_explore as se
from mc.env import httpsim, sandbox
from mc.runner import Collector

ID = "C14"
LEVEL = "model_checking"
REQUIRED_CLASSES = ["equiv-ok", "dispatch-ok", "fault-run-ok"]
RULE = ("datasets: plain {flat gzip, flat no-gzip, deep gzip behind the "
        "documented rewrite rule}; sharded with bit triples {0,1,2}^3 + "
        "(3,0,1) x raw/gzip (plus 6 datasets whose index and data encodings "
        "differ, 3 datasets with chunks of 0.7-2.4 MB - fault-free runs only - and 6 with 512-1024 "
        "minishards per shard, 12 written by the harness's own specification-"
        "only writer with minishard indices and data in other orders, 8 with .shard files and .index/.data pairs mixed in one scale) x grids 2^3 and (3,2,1), as .shard files and "
        "split into legacy .index/.data; URL spellings {plain, trailing "
        "slash, precomputed:// prefix, https, percent-escaped directory names}. A state = (history prefix, "
        "answers given so far); a transition = one answered request. "
        "Deviation menus per request kind (HEAD / plain GET / Range GET): "
        "404, 403, 500, 503, 200 ignoring Range, short/long replies "
        "(declared and truthful lengths), empty body, connection error, "
        "timeout, connection broken mid-body, and persistent 502/503/504 "
        "(the same answer to every later request for that path); bound 1 in "
        "quick, 2 in thorough. After every deviating run the server answers "
        "truthfully again and every chunk and the info are fetched once more "
        "through the same accessor object (must equal the fault-free "
        "result). Non-trivial: the run contains a deviation or fetches a "
        "chunk of a sharded dataset.")
ASSUMPTIONS = [
    "the server model follows docs/serving-data.rst (gzip_static, flat to "
    "deep rewrite, Range/206 and no Content-Encoding for shards)",
    "a server that truthfully returns a different complete file (200 with "
    "a consistent Content-Length) is undetectable and not in the menu for "
    "un-ranged GETs; for Range requests the client knows the length",
    "an injected 404 is a truthful 'absent' answer: file_exists -> False "
    "and errors are correct there; for sharded datasets any exception "
    "class is accepted (only C18 constrains it)",
    "recovery is demanded only when the fault did not change which "
    "accessor class the URL was dispatched to",
]
HOW_TO_READ = ("case: dataset description + url + 'deviations' = {request "
               "index: answer}; the history is: open accessor, fetch every "
               "listed chunk, fetch_file(info), file_exists(info), "
               "file_exists(nope); an answer ending in '*' is persistent; "
               "op ['again', ...] = the re-fetch after the server recovered")

URLS = ["http://sim/ds", "http://sim/ds/", "precomputed://http://sim/ds",
        "https://sim/ds/", "http://sim/my%20data/ds",
        "precomputed://https://sim/%C3%BC/ds/"]
KEY = se.KEY


def plain_datasets():
    return [{"kind": "plain", "flat": True, "gzip": True},
            {"kind": "plain", "flat": True, "gzip": False},
            {"kind": "plain", "flat": False, "gzip": True},
            # chunk contents that start with the gzip / zlib magic numbers
            # or are complete compressed streams of other data
            {"kind": "plain", "flat": True, "gzip": False, "magic": True},
            {"kind": "plain", "flat": True, "gzip": True, "magic": True}]


_GZ_STREAM = None


def plain_payload(ds, i):
    global _GZ_STREAM
    if not ds.get("magic"):
        return bytes(se.payload(i)) * 3
    if _GZ_STREAM is None:
        import gzip
        _GZ_STREAM = gzip.compress(b"not what was stored", mtime=0)
    tab = [b"\x1f\x8b\x08\x00", _GZ_STREAM, b"\x1f\x8b",
           se.MAGIC_PAYLOADS[2], b"\x78\x9c", _GZ_STREAM + b"tail"]
    return tab[i % len(tab)] + bytes([i])


def sharded_datasets(tier):
    out = []
    triples = list(itertools.product(range(3), repeat=3)) + [(3, 0, 1)]
    for t in triples:
        for enc in ("raw", "gzip"):
            for size in ((2, 2, 2), (3, 2, 1)):
                for legacy in (False, True):
                    if tier == "quick" and legacy and (
                            sum(t) % 2 or size != (3, 2, 1)):
                        continue
                    out.append({"kind": "sharded", "triple": list(t),
                                "enc": enc, "size": list(size),
                                "legacy": legacy})
    # chunks of 0.7 - 2.4 MB (ranged reads beyond 1 MiB) and shards with
    # 512 / 1024 minishards
    for legacy in (False, True):
        out.append({"kind": "sharded", "triple": [1, 1, 0], "enc": "raw",
                    "size": [2, 2, 1], "legacy": legacy, "mult": 350000})
    out.append({"kind": "sharded", "triple": [0, 0, 0], "enc": "gzip",
                "size": [2, 1, 1], "legacy": False, "mult": 350000})
    for mb, sb in ((9, 0), (10, 1), (9, 3)):
        for legacy in (False, True):
            out.append({"kind": "sharded", "triple": [mb, sb, 0],
                        "enc": "raw", "size": [3, 2, 1], "legacy": legacy})
    # one scale holding .shard files and .index/.data pairs side by side
    for t in ((1, 1, 0), (0, 2, 0), (1, 2, 1), (0, 1, 0)):
        for size in ((2, 2, 2), (3, 2, 2)):
            out.append({"kind": "sharded", "triple": list(t), "enc": "raw",
                        "size": list(size), "legacy": "mixed"})
    # written by another (specification-only) writer: other layouts
    for layout in ("reversed", "interleaved", "data-first"):
        for t in ((1, 1, 0), (2, 0, 0), (2, 1, 1)):
            for legacy in (False, True):
                if legacy and layout != "reversed":
                    continue
                out.append({"kind": "sharded", "triple": list(t),
                            "enc": "raw", "size": [3, 2, 2],
                            "legacy": legacy, "foreign": layout})
    # index and data encoded differently
    for t in ((1, 1, 0), (0, 0, 0), (2, 1, 1)):
        for ienc, enc in (("raw", "gzip"), ("gzip", "raw")):
            out.append({"kind": "sharded", "triple": list(t), "enc": enc,
                        "ienc": ienc, "size": [2, 2, 2], "legacy": False})
    return out


def build(ds, root):
    """write the dataset with the real local accessors into root/ds;
    returns the list of (chunk coords, payload)"""
    d = os.path.join(root, "ds")
    os.makedirs(d)
    # the same dataset is also reachable below directory names that need
    # percent-escapes in a URL
    for alias in ("my data", "\u00fc"):
        os.symlink(".", os.path.join(root, alias))
    from neuroglancer_scripts import accessor
    if ds["kind"] == "plain":
        info = {"type": "image", "data_type": "uint8", "num_channels": 1,
                "scales": [{"key": KEY, "size": [3, 2, 1],
                            "chunk_sizes": [[1, 1, 1]],
                            "resolution": [1, 1, 1],
                            "voxel_offset": [0, 0, 0], "encoding": "raw"}]}
        acc = accessor.get_accessor_for_url(d, {"flat": ds["flat"],
                                                "gzip": ds["gzip"]})
        acc.store_file("info", json.dumps(info).encode(),
                       mime_type="application/json")
        chunks = se.chunk_list([3, 2, 1], 1)
        for i, cc, cid in chunks:
            if i != 4:          # chunk 4 stays missing
                acc.store_chunk(plain_payload(ds, i), KEY, cc)
        return [(KEY, cc, plain_payload(ds, i) if i != 4 else None)
                for i, cc, cid in chunks]
    mult = ds.get("mult", 1)
    if ds.get("foreign"):
        return build_foreign(ds, d)
    cfg = {"size": ds["size"], "chunk": 1, "triple": ds["triple"],
           "index_enc": ds.get("ienc", ds["enc"]), "data_enc": ds["enc"],
           "strategy": "in memory"}
    with open(os.path.join(d, "info"), "w") as f:
        json.dump(se.make_info(cfg, two_scales=True), f)
    w = se.open_writer(d, "in memory")
    chunks = se.chunk_list(ds["size"], 1)
    size1 = [-(-x // 2) for x in ds["size"]]
    chunks1 = se.chunk_list(size1, 1)
    for i, cc, cid in chunks:
        if i != 4:
            w.store_chunk(bytes(se.payload(i)) * mult, KEY, cc)
    for i, cc, cid in chunks1:
        w.store_chunk(bytes(se.payload(i + 50)) * mult, "s1", cc)
    with sandbox.quiet():
        w.close()
    if ds["legacy"]:
        n = 16 * 2 ** ds["triple"][0]
        for key in (KEY, "s1"):
            sdir = os.path.join(d, key)
            for k, name in enumerate(sorted(os.listdir(sdir))):
                if ds["legacy"] == "mixed" and k % 2 == (key == KEY):
                    continue        # every other shard stays a .shard file
                if name.endswith(".shard"):
                    p = os.path.join(sdir, name)
                    data = open(p, "rb").read()
                    with open(p[:-6] + ".index", "wb") as f:
                        f.write(data[:n])
                    with open(p[:-6] + ".data", "wb") as f:
                        f.write(data[n:])
                    os.unlink(p)
    out = [(KEY, cc, bytes(se.payload(i)) * mult if i != 4 else None)
           for i, cc, cid in chunks]
    out1 = [("s1", cc, bytes(se.payload(i + 50)) * mult)
            for i, cc, cid in chunks1]
    # interleave the two scales: the reads alternate between them
    mixed = []
    for k in range(max(len(out), len(out1))):
        if k < len(out):
            mixed.append(out[k])
        if k < len(out1):
            mixed.append(out1[k])
    return mixed


def build_foreign(ds, d):
    """a sharded dataset written by the harness's own specification-only
    writer, with the minishard indices and the chunk data laid out in an
    order the package's writer never produces (one scale)"""
    from mc.oracle import morton_spec, shard_spec
    mb, sb, pb = ds["triple"]
    cfg = {"size": ds["size"], "chunk": 1, "triple": ds["triple"],
           "index_enc": "raw", "data_enc": "raw", "strategy": "in memory"}
    with open(os.path.join(d, "info"), "w") as f:
        json.dump(se.make_info(cfg, two_scales=False), f)
    os.makedirs(os.path.join(d, KEY))
    chunks = se.chunk_list(ds["size"], 1)
    grid = tuple(ds["size"])
    shards = {}
    for i, cc, cid in chunks:
        if i == 4:
            continue
        mid = morton_spec.compressed_morton_code((cc[0], cc[2], cc[4]), grid)
        shard, mini = morton_spec.route(mid, pb, mb, sb)
        shards.setdefault(shard, {})[mid] = bytes(se.payload(i)) * 2
    for shard, cmap in shards.items():
        data = shard_spec.build_shard(
            cmap, mb, lambda c: morton_spec.route(c, pb, mb, sb)[1],
            ds["foreign"])
        stem = morton_spec.shard_file_stem(shard, sb)
        if ds["legacy"]:
            n = 16 * 2 ** mb
            with open(os.path.join(d, KEY, stem + ".index"), "wb") as f:
                f.write(data[:n])
            with open(os.path.join(d, KEY, stem + ".data"), "wb") as f:
                f.write(data[n:])
        else:
            with open(os.path.join(d, KEY, stem + ".shard"), "wb") as f:
                f.write(data)
    return [(KEY, cc, bytes(se.payload(i)) * 2 if i != 4 else None)
            for i, cc, cid in chunks]


def local_reference(root, chunks):
    """bytes / exception class of the local accessor for every observation"""
    from neuroglancer_scripts import accessor
    acc = accessor.get_accessor_for_url(os.path.join(root, "ds"))
    sandbox.drop_captured_exit_handlers()
    ref = {}
    for key, cc, _ in chunks:
        try:
            ref[(key, cc)] = ("ok", bytes(acc.fetch_chunk(key, cc)))
        except Exception as exc:
            ref[(key, cc)] = ("error", type(exc).__name__)
    try:
        ref["info"] = ("ok", bytes(acc.fetch_file("info")))
    except Exception as exc:
        ref["info"] = ("error", type(exc).__name__)
    return ref, type(acc).__name__


def run_history(url, chunks, srv, deviations, recover=False):
    """execute the fixed history; returns list of (op, outcome). With
    `recover`, the server then answers truthfully again and every chunk and
    the info are fetched once more through the SAME accessor object."""
    from neuroglancer_scripts import accessor
    srv.log.clear()
    srv.applied.clear()
    srv.sticky.clear()
    srv.deviations = dict(deviations)
    out = []
    marks = []
    try:
        acc = accessor.get_accessor_for_url(url)
        out.append(("open", ("ok", type(acc).__name__)))
    except Exception as exc:
        out.append(("open", ("error", type(exc).__name__, str(exc)[:100])))
        return out, list(srv.log), marks
    marks.append(len(srv.log))
    for key, cc, _ in chunks:
        try:
            out.append((("chunk", key, cc),
                        ("ok", bytes(acc.fetch_chunk(key, cc)))))
        except Exception as exc:
            out.append((("chunk", key, cc), ("error", type(exc).__name__,
                                             str(exc)[:100])))
        marks.append(len(srv.log))
    try:
        out.append(("info", ("ok", bytes(acc.fetch_file("info")))))
    except Exception as exc:
        out.append(("info", ("error", type(exc).__name__, str(exc)[:100])))
    marks.append(len(srv.log))
    for name in ("info", "nope"):
        try:
            out.append((("exists", name), ("ok", acc.file_exists(name))))
        except Exception as exc:
            out.append((("exists", name), ("error", type(exc).__name__,
                                           str(exc)[:100])))
        marks.append(len(srv.log))
    if recover:
        srv.deviations = {}
        srv.sticky.clear()
        for key, cc, _ in chunks:
            try:
                out.append((("again", key, cc),
                            ("ok", bytes(acc.fetch_chunk(key, cc)))))
            except Exception as exc:
                out.append((("again", key, cc),
                            ("error", type(exc).__name__, str(exc)[:100])))
        try:
            out.append((("again", "info"),
                        ("ok", bytes(acc.fetch_file("info")))))
        except Exception as exc:
            out.append((("again", "info"),
                        ("error", type(exc).__name__, str(exc)[:100])))
    return out, list(srv.log), marks


PERSISTENT = ["502*", "503*", "504*"]


def menu_for(point):
    method, path, rng = point
    if method == "HEAD":
        return ["404", "403", "500", "503", "connection-error",
                "timeout"] + PERSISTENT
    if rng:
        return list(httpsim.ANSWERS) + PERSISTENT
    return ["404", "403", "500", "503", "short-declared", "empty-declared",
            "connection-error", "timeout", "broken-mid-body"] + PERSISTENT


def judge_fault(col, case, ds, ref_out, out, devs, log, marks):
    """compare a deviating run with the fault-free one"""
    plain = ds["kind"] == "plain"
    ok = True
    refd = dict((repr(op), res) for op, res in ref_out)
    dev404 = {k for k, a in devs.items() if a == "404"}
    for n, (op, res) in enumerate(out):
        want = refd.get(repr(op))
        c2 = dict(case, op=list(op) if isinstance(op, tuple) else op)
        if op == "open":
            if (res[0] == "ok" and res != ref_out[0][1] and devs
                    and min(devs) > 0):
                # the first request (the info) was answered truthfully and
                # declared the dataset's kind: a failure of a LATER request
                # must not silently change the accessor class
                ok = False
                col.violation("C14/dispatch/accessor-class-changed-by-a-"
                              "later-failure", c2, ref_out[0][1], res)
            if res[0] == "error":
                # only the documented error classes for plain datasets
                if plain and res[1] != "DataAccessError":
                    ok = False
                    col.violation("C14/fault/open-raised-other-exception/"
                                  + res[1], c2, "accessor or "
                                  "DataAccessError", res)
            continue
        if isinstance(op, tuple) and op[0] == "again":
            # the server is healthy again: the same accessor object must
            # now give what a fresh one gives
            w2 = refd.get(repr(("chunk",) + tuple(op[1:]))
                          if op[1] != "info" else repr("info"))
            if out[0][1] != ref_out[0][1]:
                # the fault made the dispatch choose another accessor class
                # (a truthful consequence of what the server said then)
                continue
            if w2 is not None and (res[0] != w2[0] or (
                    res[0] == "ok" and res[1] != w2[1])):
                ok = False
                col.violation(
                    "C14/fault/accessor-does-not-recover-after-a-transient-"
                    "failure/" + ("error" if res[0] == "error" else
                                  "wrong-bytes"), c2,
                    "the fault-free result once the server answers again",
                    res if res[0] == "error" else res[1][:40].hex())
            continue
        if res[0] == "error":
            if plain and res[1] != "DataAccessError":
                ok = False
                col.violation("C14/fault/plain-dataset-error-is-not-"
                              "DataAccessError/" + res[1], c2,
                              "DataAccessError", res)
            continue
        # the call returned normally
        if isinstance(op, tuple) and op[0] == "exists":
            if res[1] == want[1]:
                continue
            # False instead of True is only truthful after a 404 answer to
            # one of this call's own requests
            lo = marks[n - 1] if n - 1 < len(marks) else 0
            hi = marks[n] if n < len(marks) else len(log)
            if res[1] is False and any(lo <= k < hi for k in dev404):
                continue
            ok = False
            col.violation("C14/fault/file_exists-wrong-answer", c2, want,
                          res)
            continue
        if want is None or want[0] != "ok" or res[1] != want[1]:
            ok = False
            kind = "empty" if res[1] == b"" else (
                "partial" if want and want[0] == "ok"
                and want[1].startswith(res[1]) else "other")
            col.violation("C14/fault/returned-%s-bytes-instead-of-failing"
                          % kind, c2,
                          "the right bytes or an error",
                          res[1][:40].hex() if isinstance(res[1], bytes)
                          else res)
    return ok


def explore_dataset(col, ds, tier):
    root = sandbox.fresh_dir("c14")
    try:
        try:
            chunks = build(ds, root)
            ref, local_cls = local_reference(root, chunks)
        except Exception as exc:
            col.ev(1, 0, "setup-failed/" + type(exc).__name__)
            return
        srv = httpsim.serve(root)
        base_case = {"dataset": ds}
        # the local accessor itself must return what was stored (for the
        # datasets written by the harness's own specification-only writer
        # this is the only link between the files and the expected bytes)
        for key, cc, want_bytes in chunks:
            got = ref[(key, cc)]
            if want_bytes is None:
                # never stored: an error, or the zero-length filler entry
                good = got[0] == "error" or got == ("ok", b"")
            else:
                good = got == ("ok", want_bytes)
            if not good:
                col.ev(1, 1, "equiv-bad")
                col.violation(
                    "C14/equiv/local-accessor-does-not-return-the-stored-"
                    "bytes/" + ("foreign-writer" if ds.get("foreign")
                                else "package-writer"),
                    dict(base_case, url=URLS[0], deviations={},
                         op=["chunk", key, list(cc)]),
                    "missing" if want_bytes is None
                    else want_bytes[:40].hex(),
                    got[1][:40].hex() if isinstance(got[1], bytes)
                    else got)
                return
        # ---- 0 deviations, every URL spelling
        ref_out = None
        for url in URLS:
            case = dict(base_case, url=url, deviations={})
            out, log, marks = run_history(url, chunks, srv, {})
            col.r["transitions"] += len(log)
            col.r["states"] += len(log) + 1
            col.r["traces"] += 1
            col.r["max_depth"] = max(col.r["max_depth"], len(log))
            ok = True
            if out[0][1][0] != "ok":
                ok = False
                col.violation("C14/equiv/open-failed/%s" % out[0][1][1],
                              case, "an accessor", out[0][1])
            else:
                want_cls = ("ShardedHttpAccessor" if ds["kind"] == "sharded"
                            else "HttpAccessor")
                if out[0][1][1] != want_cls:
                    ok = False
                    col.violation("C14/dispatch/wrong-accessor-class", case,
                                  want_cls, out[0][1][1])
                for op, res in out[1:]:
                    c2 = dict(case, op=list(op) if isinstance(op, tuple)
                              else op)
                    if isinstance(op, tuple) and op[0] == "chunk":
                        w = ref[(op[1], op[2])]
                    elif op == "info":
                        w = ref["info"]
                    else:
                        w = ("ok", op[1] == "info")
                    if w[0] == "ok":
                        if res[0] != "ok":
                            ok = False
                            col.violation(
                                "C14/equiv/http-fails-where-local-reads/%s/"
                                "%s" % (ds["kind"], res[1]), c2,
                                "same bytes as the local accessor", res)
                        elif res[1] != w[1]:
                            ok = False
                            col.violation("C14/equiv/different-bytes/"
                                          + ds["kind"], c2,
                                          w[1][:40].hex() if isinstance(
                                              w[1], bytes) else w[1],
                                          res[1][:40].hex() if isinstance(
                                              res[1], bytes) else res[1])
                    else:
                        if res[0] == "ok":
                            ok = False
                            col.violation("C14/equiv/missing-resource-"
                                          "returned-data/" + ds["kind"], c2,
                                          "an error", res)
                        elif ds["kind"] == "plain" and \
                                res[1] != "DataAccessError":
                            ok = False
                            col.violation("C14/equiv/missing-resource-"
                                          "error-class/" + res[1], c2,
                                          "DataAccessError", res)
            col.ev(1, 1 if ds["kind"] == "sharded" else 0,
                   "equiv-ok" if ok else "equiv-bad")
            if url == URLS[0]:
                ref_out, ref_log, ref_marks = out, log, marks
        if ref_out is None or ref_out[0][1][0] != "ok":
            return
        # two fresh accessors on the same data must issue the same requests:
        # anything else is state leaking between accessor instances (which
        # would also make the deviation runs below meaningless)
        out2, log2, _ = run_history(URLS[0], chunks, srv, {})
        if out2 != ref_out:
            col.ev(1, 1, "equiv-bad")
            col.violation("C14/equiv/fresh-accessor-gives-different-results-"
                          "the-second-time", dict(base_case, url=URLS[0],
                                                  deviations={}),
                          "the same results from a second fresh accessor",
                          "results differ (requests %r... vs %r...)" % (
                              log2[:4], ref_log[:4]))
            return
        if log2 != ref_log:
            # same results through different requests (e.g. a legitimate
            # cache): the deviation runs cannot be aligned with a recording
            col.ev(1, 1, "deviations-skipped/requests-not-repeatable")
            return
        if ds.get("mult"):
            # megabyte-sized chunks: fault-free equivalence only
            col.ev(1, 1, "deviations-skipped/big-chunks")
            return
        # ---- deviations (first URL spelling)
        url = URLS[0]
        bound = 1 if tier == "quick" else 2
        single = [(k, a) for k in range(len(ref_log))
                  for a in menu_for(ref_log[k])]
        runs = [{k: a} for k, a in single]
        # bound 2 (thorough, every third dataset): the second deviation is
        # placed at each of the next three requests of the run that already
        # contains the first one (requests issued after a deviation are
        # discovered on the fly) and is taken from that request's own menu
        second = ("404", "500", "connection-error", "short-truthful",
                  "short-declared")
        do_pairs = bound >= 2 and (sum(map(ord, json.dumps(
            ds, sort_keys=True))) % 3 == 0)
        if do_pairs:
            for (k1, a1) in single:
                out1, log1, _ = run_history(url, chunks, srv, {k1: a1})
                for k2 in range(k1 + 1, min(len(log1), k1 + 4)):
                    for a2 in menu_for(log1[k2]):
                        if a2 in second:
                            runs.append({k1: a1, k2: a2})
        for devs in runs:
            case = dict(base_case, url=url,
                        deviations={str(k): a for k, a in devs.items()})
            out, log, marks = run_history(url, chunks, srv, devs,
                                          recover=True)
            col.r["transitions"] += len(log)
            col.r["states"] += len(log)
            col.r["traces"] += 1
            # prefix determinism: requests before the first deviation must
            # be the recorded ones
            k0 = min(devs)
            if log[:k0 + 1] != ref_log[:k0 + 1]:
                raise RuntimeError("prefix divergence (harness "
                                   "nondeterminism): %r vs %r"
                                   % (log[:k0 + 1], ref_log[:k0 + 1]))
            ok = judge_fault(col, case, ds, ref_out, out, devs, log, marks)
            col.ev(1, 1, "fault-run-ok" if ok else "fault-run-bad")
        col.extra("points", len(ref_log))
        col.extra("deviating_runs", len(runs))
    finally:
        httpsim.SimAdapter.server = None
        sandbox.drop_captured_exit_handlers()
        sandbox.rm(root)


# ---- dispatch lattice --------------------------------------------------------
def dispatch_cases():
    sh = {"@type": "neuroglancer_uint64_sharded_v1", "hash": "identity",
          "minishard_bits": 0, "shard_bits": 0, "preshift_bits": 0,
          "minishard_index_encoding": "raw", "data_encoding": "raw"}

    def scale(k, sharded, typ=None):
        s = {"key": k, "size": [1, 1, 1], "chunk_sizes": [[1, 1, 1]],
             "resolution": [1, 1, 1], "voxel_offset": [0, 0, 0],
             "encoding": "raw"}
        if sharded:
            s["sharding"] = dict(sh)
            if typ:
                s["sharding"]["@type"] = typ
        return s
    base = {"type": "image", "data_type": "uint8", "num_channels": 1}
    return [
        ("all-sharded", dict(base, scales=[scale("a", 1), scale("b", 1)]),
         True),
        ("one-sharded", dict(base, scales=[scale("a", 1)]), True),
        ("mixed", dict(base, scales=[scale("a", 1), scale("b", 0)]), False),
        ("none", dict(base, scales=[scale("a", 0)]), False),
        ("no-scales", dict(base, scales=[]), False),
        ("other-type", dict(base, scales=[scale("a", 1, "other_v2")]),
         False),
        ("malformed", "{not json", False),
        ("missing", None, False),
    ]


def eval_dispatch(col):
    from neuroglancer_scripts import accessor
    for name, info, want_sharded in dispatch_cases():
        root = sandbox.fresh_dir("c14d")
        try:
            os.makedirs(os.path.join(root, "ds"))
            for alias in ("my data", "\u00fc"):
                os.symlink(".", os.path.join(root, alias))
            if info is not None:
                with open(os.path.join(root, "ds", "info"), "w") as f:
                    f.write(info if isinstance(info, str)
                            else json.dumps(info))
            httpsim.serve(root)
            for url in URLS:
                case = {"kind": "dispatch", "info": name, "url": url}
                try:
                    acc = accessor.get_accessor_for_url(url)
                    got = type(acc).__name__
                except Exception as exc:
                    col.ev(1, 1, "dispatch-exception")
                    col.violation("C14/dispatch/exception/"
                                  + type(exc).__name__, case, "an accessor",
                                  repr(exc)[:200])
                    continue
                want = ("ShardedHttpAccessor" if want_sharded
                        else "HttpAccessor")
                if got != want:
                    col.ev(1, 1, "dispatch-bad")
                    col.violation("C14/dispatch/wrong-accessor-class", case,
                                  want, got)
                else:
                    col.ev(1, 1, "dispatch-ok")
        finally:
            httpsim.SimAdapter.server = None
            sandbox.rm(root)
    col.sample({"kind": "dispatch", "info": "mixed", "url": URLS[2]})


# ---- conformance of the HTTP seam with real sockets (DESIGN section 6) ----
CONF_ANSWERS = ["404", "500", "ignore-range", "short-truthful",
                "long-truthful", "short-declared", "connection-error",
                "broken-mid-body"]


def _norm(out):
    """results without messages (URLs differ between the two transports)"""
    return [(repr(op), res[:2]) for op, res in out]


def conformance_dataset(col, ds, tier):
    root = sandbox.fresh_dir("c14c")
    sock = None
    try:
        chunks = build(ds, root)
        srv = httpsim.serve(root)
        ref_out, ref_log, _ = run_history(URLS[0], chunks, srv, {})
        runs = [{}]
        stride = 3 if tier == "quick" else 1
        n = 0
        for k in range(len(ref_log)):
            for a in menu_for(ref_log[k]):
                if a in CONF_ANSWERS:
                    n += 1
                    if n % stride == 0:
                        runs.append({k: a})
        sim_results = []
        for devs in runs:
            out, log, _ = run_history(URLS[0], chunks, srv, devs)
            sim_results.append((_norm(out), log))
        # the same runs through the unmodified requests stack and sockets
        httpsim.uninstall()
        try:
            sock = httpsim.SocketServer(srv)
        except OSError as exc:
            # no loopback interface in this sandbox: say so, do not guess
            col.ev(len(runs), 0, "conformance-skipped/" + type(exc).__name__)
            return
        url = "http://127.0.0.1:%d/ds" % sock.port
        for devs, (sim_out, sim_log) in zip(runs, sim_results):
            out, log, _ = run_history(url, chunks, srv, devs)
            if _norm(out) != sim_out or log != sim_log:
                raise RuntimeError(
                    "HTTP seam / socket mismatch for %r deviations %r:\n"
                    "seam   %r\nsocket %r" % (ds, devs, sim_out,
                                              _norm(out)))
            col.ev(1, 1, "conformance-ok")
            col.extra("conformance_replays")
    finally:
        if sock is not None:
            sock.stop()
        httpsim.install()
        httpsim.SimAdapter.server = None
        sandbox.drop_captured_exit_handlers()
        sandbox.rm(root)


CONF_DATASETS = [
    {"kind": "plain", "flat": True, "gzip": True},
    {"kind": "plain", "flat": False, "gzip": True},
    {"kind": "sharded", "triple": [1, 1, 0], "enc": "raw",
     "size": [2, 2, 2], "legacy": False},
    {"kind": "sharded", "triple": [0, 1, 1], "enc": "gzip",
     "size": [3, 2, 1], "legacy": True},
]


def units(tier):
    u = [{"kind": "dispatch"}]
    for ds in CONF_DATASETS:
        u.append({"kind": "conformance", "ds": ds, "tier": tier})
    for ds in plain_datasets() + sharded_datasets(tier):
        u.append({"kind": "dataset", "ds": ds, "tier": tier})
    return u


def space(tier):
    return {"plain_datasets": len(plain_datasets()),
            "sharded_datasets": len(sharded_datasets(tier)),
            "url_spellings": len(URLS), "answers": len(httpsim.ANSWERS),
            "bound": 1 if tier == "quick" else 2}


def run_unit(u):
    col = Collector()
    if u["kind"] == "dispatch":
        eval_dispatch(col)
    elif u["kind"] == "conformance":
        conformance_dataset(col, u["ds"], u["tier"])
        col.sample({"conformance": u["ds"]})
    else:
        explore_dataset(col, u["ds"], u["tier"])
        col.sample({"dataset": u["ds"], "url": URLS[0],
                    "deviations": {"2": "short-truthful"}})
    return col.result()


def replay(case):
    col = Collector()
    if case.get("kind") == "dispatch":
        eval_dispatch(col)
        return [r for r in col.records()
                if r["case"]["info"] == case["info"]
                and r["case"]["url"] == case["url"]]
    ds = case["dataset"]
    root = sandbox.fresh_dir("c14r")
    try:
        chunks = build(ds, root)
        ref, _ = local_reference(root, chunks)
        srv = httpsim.serve(root)
        devs = {int(k): a for k, a in case.get("deviations", {}).items()}
        if not devs:
            c2 = Collector()
            explore_dataset(c2, ds, "quick")
            return [r for r in c2.records()
                    if r["case"].get("url") == case["url"]
                    and not r["case"].get("deviations")
                    and r["case"].get("op") == case.get("op")]
        ref_out, ref_log, ref_marks = run_history(URLS[0], chunks, srv, {})
        out, log, marks = run_history(case["url"], chunks, srv, devs,
                                      recover=True)
        judge_fault(col, {"dataset": ds, "url": case["url"],
                          "deviations": case["deviations"]}, ds, ref_out,
                    out, devs, log, marks)
        recs = col.records()
        if "op" in case:
            recs = [r for r in recs if r["case"].get("op") == case["op"]] \
                or recs
        return recs
    finally:
        httpsim.SimAdapter.server = None
        sandbox.drop_captured_exit_handlers()
        sandbox.rm(root)
