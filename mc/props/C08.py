"""C08 - generated scale metadata is consistent and usable by later steps.

E-INPUT: lattice of sizes x resolutions x target chunk sizes x max_scales,
each sub-claim of the statement checked with integer / rational arithmetic
under its own signature; plus the type/encoding/data_type reconciliation
product through the real generate_scales_info path (JSON in, info out).
"""
import itertools
import json
import math
import os
from fractions import Fraction

from mc.env import sandbox
from mc.runner import Collector

ID = "C08"
LEVEL = "exploration"
REQUIRED_CLASSES = ["geometry-ok", "params-ok"]
RULE = ("geometry: sizes^3 x resolutions^3 x target chunk sizes x max_scales "
        "(quick: 5 sizes, 7 resolutions, targets {2,64}, max_scales None and for a quarter of the geometries 1..3; thorough: 7 sizes, "
        "11 resolutions, 6 targets, max_scales {None,3}; a fixed 1/50 slice "
        "additionally goes through generate_scales_info end to end); "
        "magnitude family: 48 axis lengths 2^k+j (k up to 40, j in {-1,0,1,3,"
        "100}) and large primes x 4 shapes x 3 resolutions x targets {64,8}; "
        "parameters: type x encoding x data_type x channels through "
        "set_info_params + fill + get_encoder, also for descriptions that "
        "already carry an encoding, a type (image / segmentation), a block size or a second scale; a third of "
        "the combinations go through the console script's main(argv). Sub-claims: distinct keys; "
        "size/resolution = full size and resolution by a per-axis "
        "power-of-two factor, non-decreasing, steps of 1 or 2; power-of-two "
        "chunk sizes with about target^3 voxels; last scale within two "
        "target chunks per axis; every axis further than sqrt(2) from the finest one catches up, none drifts away; encoders accept "
        "every scale; consecutive scales compatible with the pyramid "
        "computation. Consumer family: 4^3 (thorough 8^3) sizes incl. "
        "one-voxel axes x 6 resolution triples x targets {2,4} ({1,2,4,8}): "
        "the generated description is given to the real "
        "compute_dyadic_scales on a tiny dataset, which must accept it and "
        "leave every level readable. Non-trivial: >= 2 scales generated.")
ASSUMPTIONS = [
    "'compatible chunk sizes' = the envelope compute_dyadic_downscaling "
    "handles: per axis the new chunk is assembled from 1 or 2 downscaled old "
    "chunks and old_chunk // factor >= 1",
    "'about the target number of voxels' = |log2(prod chunk) - 3 log2 "
    "target| <= 1 (the code's own documented tolerance)",
]
HOW_TO_READ = ("case: fill_scales_for_dyadic_pyramid(info with one scale of "
               "'size' and 'resolution', target_chunk_size=target, "
               "max_scales=max_scales)")

SIZES_Q = [1, 3, 65, 1000, 10 ** 9]
SIZES_T = [1, 2, 63, 129, 1000, 4097, 10 ** 9]
RES_Q = [0.8, 1, 1.2, 2, 3, 8, 100]
RES_T = [0.8, 1, 1.2, 1.5, 2, 3, 4, 16, 1000, 21166.67, 20000]
TARGETS_Q = [2, 64]
TARGETS_T = [1, 2, 4, 8, 64, 256]


def _is_pow2(n):
    return isinstance(n, int) and n >= 1 and (n & (n - 1)) == 0


def _res_class(res):
    """input feature used by known-finding predicates: the sorted ratios of
    the resolutions to the finest one, as decimal strings"""
    m = min(res)
    return sorted("%.6g" % (r / m) for r in res)


def _case(size, res, target, max_scales):
    ratios = [r / min(res) for r in res]
    return {"kind": "geometry", "size": list(size), "resolution": list(res),
            "target": target, "max_scales": max_scales,
            "isotropic": len(set(res)) == 1,
            "distinct_delays": len({int(round(math.log2(x)))
                                    for x in ratios}),
            "ratios": _res_class(res),
            "ratios_pow2": all(abs(math.log2(x) - round(math.log2(x)))
                               < 1e-9 for x in ratios)}


def base_info(size, res, enc="raw", dtype="uint8", nch=1, typ="image"):
    return {"type": typ, "data_type": dtype, "num_channels": nch,
            "scales": [{"encoding": enc, "size": list(size),
                        "resolution": list(res), "voxel_offset": [0, 0, 0]}]}


def envelope_ok(old, new):
    """is the pair of scales inside the envelope compute_dyadic_downscaling
    supports (see ASSUMPTIONS)?  returns None or a reason string"""
    oc, nc = old["chunk_sizes"][0], new["chunk_sizes"][0]
    for a in range(3):
        f = 1 if old["size"][a] == new["size"][a] else 2
        if new["size"][a] != -(-old["size"][a] // f):
            return "axis %d: size step is not 1 or 2" % a
        half = oc[a] // f
        if half < 1:
            return "axis %d: old chunk %d / factor %d is empty" % (a, oc[a],
                                                                   f)
        if nc[a] % half or nc[a] // half not in (1, 2):
            # a clipped border chunk may be smaller than nc; what matters is
            # whether the new chunk can need more than two old chunks
            if min(nc[a], new["size"][a]) > 2 * half:
                return ("axis %d: new chunk %d needs more than two "
                        "downscaled old chunks of %d" % (a, nc[a], half))
            if nc[a] % half and new["size"][a] > nc[a]:
                return ("axis %d: new chunks of %d are not tiled by "
                        "downscaled old chunks of %d" % (a, nc[a], half))
    return None


def check_info(col, case, info, size, res, target, max_scales):
    """all sub-claims on a generated info; returns True if all hold"""
    ok = True
    scales = info["scales"]

    def bad(sig, exp, obs):
        nonlocal ok
        ok = False
        col.violation("C08/" + sig, case, exp, obs)

    try:
        json.loads(json.dumps(info))
    except Exception as exc:
        bad("not-json-serialisable", "JSON", repr(exc)[:100])
        return False
    keys = [s.get("key") for s in scales]
    if len(set(keys)) != len(keys):
        bad("duplicate-scale-keys", "pairwise distinct keys", keys)
    prev_f = None
    prev_aniso = None
    for k, s in enumerate(scales):
        f = []
        for a in range(3):
            fa = None
            for e in range(0, 64):
                if s["size"][a] == -(-size[a] // (1 << e)) and \
                        Fraction(s["resolution"][a]) == \
                        Fraction(res[a]) * (1 << e):
                    fa = 1 << e
                    break
            f.append(fa)
        if None in f:
            bad("size-or-resolution-not-a-power-of-two-factor",
                "size = ceil(size0/f), resolution = resolution0*f",
                {"scale": k, "size": s["size"],
                 "resolution": s["resolution"]})
            break
        if k == 0 and f != [1, 1, 1]:
            bad("first-scale-is-not-full-resolution", [1, 1, 1], f)
        if prev_f is not None:
            steps = [f[a] // prev_f[a] if f[a] % prev_f[a] == 0 else -1
                     for a in range(3)]
            if any(st not in (1, 2) for st in steps):
                bad("consecutive-factors-not-1-or-2", "steps in {1,2}",
                    {"scale": k, "from": prev_f, "to": f})
            if steps == [1, 1, 1]:
                bad("scale-repeats-the-previous-one", "some axis halves",
                    {"scale": k, "factors": f})
        prev_f = f
        cs = s.get("chunk_sizes")
        if (not isinstance(cs, list) or len(cs) != 1 or len(cs[0]) != 3
                or not all(_is_pow2(c) for c in cs[0])):
            bad("chunk-sizes-not-powers-of-two", "3 powers of two", cs)
        else:
            lg = sum(c.bit_length() - 1 for c in cs[0])
            if abs(lg - 3 * (target.bit_length() - 1)) > 1:
                bad("chunk-voxel-count-far-from-target",
                    "|log2(prod chunk) - 3 log2(target)| <= 1",
                    {"scale": k, "chunk": cs[0], "target": target})
        # "axes with coarser voxels start downscaling later so voxels tend
        # towards isotropy": relative to the finest axis, an axis that is
        # more than sqrt(2) away must get closer at the next level, and no
        # axis may drift further away than sqrt(2).
        fin = min(range(3), key=lambda a: res[a])
        dev = [abs(math.log2(s["resolution"][a] / s["resolution"][fin]))
               for a in range(3)]
        if prev_aniso is not None:
            for a in range(3):
                if (prev_aniso[a] > 0.5 + 1e-9
                        and not dev[a] < prev_aniso[a] - 1e-9):
                    bad("coarse-axis-does-not-catch-up",
                        "an axis further than sqrt(2) from the finest axis "
                        "gets closer at the next level",
                        {"scale": k, "axis": a, "log2_ratio": dev[a],
                         "previous": prev_aniso[a]})
                elif dev[a] > max(prev_aniso[a], 0.5) + 1e-9:
                    bad("axis-drifts-away-from-isotropy",
                        "log2 ratio to the finest axis does not grow beyond "
                        "0.5", {"scale": k, "axis": a, "log2_ratio": dev[a],
                                "previous": prev_aniso[a]})
        prev_aniso = dev
    truncated = max_scales is not None and len(scales) >= max_scales
    if not truncated and prev_f is not None:
        last = scales[-1]
        over = [a for a in range(3) if -(-last["size"][a] // target) > 2]
        if over:
            bad("last-scale-larger-than-two-target-chunks",
                "<= 2 target-size chunks per axis",
                {"size": last["size"], "target": target})
    if max_scales is not None and len(scales) > max(1, max_scales):
        bad("more-scales-than-max-scales", max_scales, len(scales))
    for k in range(len(scales) - 1):
        why = None
        try:
            why = envelope_ok(scales[k], scales[k + 1])
        except Exception as exc:
            why = repr(exc)
        if why:
            cls = ("empty-half-chunk" if "is empty" in why else
                   "needs-more-than-two-old-chunks" if "more than two" in why
                   else "not-tiled-by-old-chunks" if "not tiled" in why
                   else "other")
            bad("consecutive-scales-incompatible-with-pyramid-computation/"
                + cls,
                "compatible chunk sizes", {"pair": k, "why": why,
                                           "old": scales[k]["chunk_sizes"],
                                           "new": scales[k + 1][
                                               "chunk_sizes"]})
            break
    try:
        from neuroglancer_scripts import chunk_encoding
        for s in scales:
            chunk_encoding.get_encoder(info, s)
    except Exception as exc:
        bad("encoder-rejects-generated-scale/" + type(exc).__name__,
            "accepted", repr(exc)[:200])
    return ok


def _eval_geometry(col, size, res, target, max_scales, via_file=False):
    from neuroglancer_scripts import dyadic_pyramid
    case = _case(size, res, target, max_scales)
    info = base_info(size, res)
    try:
        if via_file:
            case["via"] = "generate_scales_info"
            info = _via_file(info, target, max_scales)
        else:
            dyadic_pyramid.fill_scales_for_dyadic_pyramid(
                info, target_chunk_size=target, max_scales=max_scales)
    except Exception as exc:
        col.ev(1, 0, "geometry-exception")
        col.violation("C08/exception/" + type(exc).__name__, case,
                      "an info", repr(exc)[:200])
        return
    ok = check_info(col, case, info, size, res, target, max_scales)
    col.ev(1, 1 if len(info["scales"]) >= 2 else 0,
           "geometry-ok" if ok else "geometry-bad")


CONSUMER_RES = [(1, 1, 1), (100, 100, 800), (3200, 50, 50), (1, 4, 2),
                (2, 1, 1), (1, 1, 16)]


def consumer_cases(tier):
    sizes = (1, 3, 8, 30) if tier == "quick" else (1, 2, 3, 5, 8, 17, 30)
    targets = (2, 4) if tier == "quick" else (2, 4, 8)
    return [(size, res, t) for size in itertools.product(sizes, repeat=3)
            for res in CONSUMER_RES for t in targets]


def _eval_consumer(col, size, res, target):
    """'usable': the generated description is handed to the REAL pyramid
    computation (not to my model of what it supports): tiny raw dataset,
    full-resolution scale written, compute_dyadic_scales must accept every
    pair of scales my envelope accepts and leave every level readable.
    (Whether the voxel values are right is C06's business.)"""
    import numpy as np

    from mc import pipeline
    from neuroglancer_scripts import (
        accessor,
        downscaling,
        dyadic_pyramid,
        precomputed_io,
    )
    case = dict(_case(size, res, target, None), kind="consumer")
    info = base_info(size, res)
    try:
        dyadic_pyramid.fill_scales_for_dyadic_pyramid(
            info, target_chunk_size=target)
    except Exception:
        col.ev(1, 0, "consumer-skipped/no-info")     # geometry family's job
        return
    scales = info["scales"]
    for k in range(len(scales) - 1):
        try:
            why = envelope_ok(scales[k], scales[k + 1])
        except Exception as exc:
            why = repr(exc)
        if why:
            # reported (or listed as a known finding) by the geometry family
            col.ev(1, 0, "consumer-skipped/outside-envelope")
            return
    d = sandbox.fresh_dir("c08c")
    try:
        acc = accessor.get_accessor_for_url(d, {"flat": True, "gzip": False})
        pio = precomputed_io.get_IO_for_new_dataset(info, acc)
        sc0 = scales[0]
        z, y, x = np.meshgrid(np.arange(size[2]), np.arange(size[1]),
                              np.arange(size[0]), indexing="ij")
        vol = ((x * 3 + y * 5 + z * 7) % 200 + 1).astype("uint8")[np.newaxis]
        for cc in pipeline.chunk_grid(sc0["size"], sc0["chunk_sizes"][0]):
            pio.write_chunk(np.ascontiguousarray(
                vol[:, cc[4]:cc[5], cc[2]:cc[3], cc[0]:cc[1]]), sc0["key"],
                cc)
        try:
            with sandbox.quiet():
                dyadic_pyramid.compute_dyadic_scales(
                    pio, downscaling.get_downscaler("average"))
        except Exception as exc:
            col.ev(1, 1, "consumer-bad")
            col.violation("C08/generated-info-refused-by-the-pyramid-"
                          "computation/" + type(exc).__name__, case,
                          "computed", repr(exc)[:200])
            return
        try:
            rd = pipeline.open_dataset(d, {"flat": True, "gzip": False})
            for i, sc in enumerate(scales):
                lv = pipeline.read_scale(rd, i)
                if list(lv.shape[1:][::-1]) != list(sc["size"]):
                    raise ValueError("level %d has shape %r" % (i, lv.shape))
        except Exception as exc:
            col.ev(1, 1, "consumer-bad")
            col.violation("C08/generated-info-computed-but-a-level-is-not-"
                          "readable/" + type(exc).__name__, case,
                          "every level readable", repr(exc)[:200])
            return
        col.ev(1, 1 if len(scales) >= 2 else 0, "consumer-ok")
    finally:
        sandbox.rm(d)


def _via_file(info, target, max_scales, typ=None, enc=None, cli=False):
    from neuroglancer_scripts.scripts import generate_scales_info as g
    d = sandbox.fresh_dir("c08")
    try:
        src = os.path.join(d, "info_fullres.json")
        with open(src, "w") as f:
            json.dump(info, f)
        dest = os.path.join(d, "out")
        if cli:
            # the console script: argument parsing and its defaults included
            args = [src, dest]
            if target != 64:
                args += ["--target-chunk-size", str(target)]
            if typ:
                args += ["--type", typ]
            if enc:
                args += ["--encoding", enc]
            if max_scales:
                args += ["--max-scales", str(max_scales)]
            r = sandbox.run_cli("generate_scales_info", args)
            if r.exc is not None:
                raise r.exc
            if r.status:
                raise RuntimeError("generate-scales-info exit status %r: %s"
                                   % (r.status, r.err[-200:]))
        else:
            with sandbox.quiet():
                g.generate_scales_info(src, dest, target_chunk_size=target,
                                       dataset_type=typ, encoding=enc,
                                       max_scales=max_scales)
        with open(os.path.join(dest, "info")) as f:
            return json.load(f)
    finally:
        sandbox.rm(d)


def _eval_params(col, typ, enc, dtype, nch, pre_enc, pre_type,
                 extra_scale=False, pre_block=None, cli=False):
    case = {"kind": "params", "type": typ, "encoding": enc,
            "data_type": dtype, "channels": nch, "input_encoding": pre_enc,
            "input_type": pre_type}
    if cli:
        case["via"] = "command line"
    size, res = (130, 70, 33), (1.0, 1.0, 2.0)
    info = base_info(size, res, enc=pre_enc or "raw", dtype=dtype, nch=nch)
    if pre_block is not None:
        # the full-resolution description already carries a block size
        case["input_block_size"] = list(pre_block)
        info["scales"][0]["compressed_segmentation_block_size"] = \
            list(pre_block)
    if extra_scale:
        # a source description with a left-over second scale is legal: only
        # the first one is used
        case["extra_scale"] = True
        info["scales"].append({"encoding": "raw", "size": [7, 7, 7],
                               "resolution": [50.0, 50.0, 50.0],
                               "voxel_offset": [0, 0, 0], "key": "old",
                               "chunk_sizes": [[64, 64, 64]]})
    if pre_enc is None:
        del info["scales"][0]["encoding"]
    if pre_type is None:
        del info["type"]
    else:
        info["type"] = pre_type
    eff_enc = enc or pre_enc or "raw"
    try:
        out = _via_file(info, 64, None, typ=typ, enc=enc, cli=cli)
    except Exception as exc:
        # jpeg needs uint8 with 1 or 3 channels, compressed_segmentation
        # needs 32/64-bit labels: refusing an impossible combination with
        # InvalidInfoError is the documented behaviour
        from neuroglancer_scripts.chunk_encoding import InvalidInfoError
        impossible = ((eff_enc == "jpeg" and (dtype != "uint8"
                                              or nch not in (1, 3)))
                      or (eff_enc == "compressed_segmentation"
                          and dtype == "float32"))
        if impossible and isinstance(exc, InvalidInfoError):
            col.ev(1, 1, "params-refused-impossible")
        else:
            col.ev(1, 1, "params-exception")
            col.violation("C08/params/exception/" + type(exc).__name__, case,
                          "an info", repr(exc)[:200])
        return
    ok = True
    want_type = typ or pre_type or ("segmentation" if eff_enc ==
                                    "compressed_segmentation" else "image")
    if out.get("type") != want_type:
        ok = False
        col.violation("C08/params/type", case, want_type, out.get("type"))
    if any(s.get("encoding") != eff_enc for s in out["scales"]):
        ok = False
        col.violation("C08/params/encoding", case, eff_enc,
                      [s.get("encoding") for s in out["scales"]])
    want_dt = dtype
    if eff_enc == "compressed_segmentation" and dtype in ("uint8", "uint16"):
        want_dt = "uint32"
    if out.get("data_type") != want_dt:
        ok = False
        col.violation("C08/params/data_type", case, want_dt,
                      out.get("data_type"))
    if eff_enc == "compressed_segmentation" and any(
            "compressed_segmentation_block_size" not in s
            for s in out["scales"]):
        ok = False
        col.violation("C08/params/missing-block-size", case,
                      "block size in every scale", "missing")
    elif eff_enc == "compressed_segmentation" and pre_block is not None \
            and any(s["compressed_segmentation_block_size"]
                    != list(pre_block) for s in out["scales"]):
        ok = False
        col.violation("C08/params/given-block-size-not-kept", case,
                      list(pre_block),
                      [s["compressed_segmentation_block_size"]
                       for s in out["scales"]])
    c2 = dict(case)
    if not check_info(col, c2, out, size, res, 64, None):
        ok = False
    col.ev(1, 1, "params-ok" if ok else "params-bad")


def _lists(tier):
    if tier == "quick":
        return SIZES_Q, RES_Q, TARGETS_Q, [None]
    return SIZES_T, RES_T, TARGETS_T, [None, 3]


def magnitude_cases():
    """sizes just above / below / at powers of two up to 2^40, and prime-ish
    large sizes, with isotropic and two anisotropic resolutions - where a
    level count computed in floating point is most likely to be off"""
    sizes = []
    for k in (8, 16, 22, 23, 25, 29, 31, 32, 40):
        for j in (-1, 0, 1, 3, 100):
            sizes.append((1 << k) + j)
    sizes += [999983, 10 ** 12 + 39, 3 * (1 << 30) + 1]
    out = []
    for a in sizes:
        for shape in ((a, 64, 64), (70, a, 3), (1, 1, a), (a, a, a)):
            for res in ((1, 1, 1), (1, 1, 2.5), (3, 1, 1)):
                for target in (64, 8):
                    out.append((shape, res, target))
    return out


def units(tier):
    sizes, ress, targets, ms = _lists(tier)
    u = []
    for sx in sizes:
        for sy in sizes:
            u.append({"kind": "geometry", "sx": sx, "sy": sy, "tier": tier})
    u.append({"kind": "params"})
    mc = magnitude_cases()
    for i in range(0, len(mc), 300):
        u.append({"kind": "magnitude", "lo": i, "hi": i + 300})
    ncons = len(consumer_cases(tier))
    for i in range(0, ncons, 64):
        u.append({"kind": "consumer", "lo": i, "hi": i + 64, "tier": tier})
    return u


def space(tier):
    sizes, ress, targets, ms = _lists(tier)
    return {"sizes": len(sizes) ** 3, "resolutions": len(ress) ** 3,
            "targets": len(targets), "max_scales": len(ms),
            "geometry_product": len(sizes) ** 3 * len(ress) ** 3
            * len(targets) * len(ms),
            "params_product": 3 * 4 * 5 * 3 * (4 * 2 + 1 + 4)}


def run_unit(u):
    col = Collector()
    if u["kind"] == "magnitude":
        for shape, res, target in magnitude_cases()[u["lo"]:u["hi"]]:
            _eval_geometry(col, shape, res, target, None)
        col.sample(_case((4194305, 64, 64), (1, 1, 1), 64, None))
        return col.result()
    if u["kind"] == "consumer":
        for size, res, target in consumer_cases(u["tier"])[u["lo"]:u["hi"]]:
            _eval_consumer(col, size, res, target)
        col.sample(dict(_case((30, 8, 1), (100, 100, 800), 4, None),
                        kind="consumer"))
        return col.result()
    if u["kind"] == "geometry":
        sizes, ress, targets, ms = _lists(u["tier"])
        n = 0
        for sz in sizes:
            size = (u["sx"], u["sy"], sz)
            for res in itertools.product(ress, repeat=3):
                for target in targets:
                    for m in ms:
                        n += 1
                        _eval_geometry(col, size, res, target, m,
                                       via_file=(n % 50 == 0))
                        if u["tier"] == "quick" and n % 4 == 1:
                            # quick: a quarter of the geometries also with
                            # a limit on the number of scales
                            _eval_geometry(col, size, res, target,
                                           1 + (n // 4) % 3,
                                           via_file=(n % 100 == 1))
        col.sample(_case((u["sx"], u["sy"], sizes[-1]),
                         (ress[0], ress[1], ress[-1]), targets[-1], None))
    else:
        for typ in (None, "image", "segmentation"):
            for enc in (None, "raw", "jpeg", "compressed_segmentation"):
                for dtype in ("uint8", "uint16", "uint32", "uint64",
                              "float32"):
                    for nch in (1, 2, 3):
                        for pre_enc in (None, "raw",
                                        "compressed_segmentation", "jpeg"):
                            for pre_type in (None, "segmentation",
                                             "image"):
                                _eval_params(col, typ, enc, dtype, nch,
                                             pre_enc, pre_type,
                                             cli=(pre_type != "segmentation"
                                                  and nch == 1) or (
                                                 pre_type == "segmentation"
                                                 and nch == 2))
                        _eval_params(col, typ, enc, dtype, nch, "raw",
                                     None, extra_scale=True)
                        for pre_block in ([8, 8, 8], [4, 4, 2]):
                            for pre_enc in (None, "compressed_segmentation"):
                                _eval_params(col, typ, enc, dtype, nch,
                                             pre_enc, None,
                                             pre_block=pre_block)
        col.sample({"kind": "params", "type": None,
                    "encoding": "compressed_segmentation",
                    "data_type": "uint16", "channels": 1})
    return col.result()


def replay(case):
    col = Collector()
    if case["kind"] == "consumer":
        _eval_consumer(col, tuple(case["size"]), tuple(case["resolution"]),
                       case["target"])
    elif case["kind"] == "geometry":
        _eval_geometry(col, tuple(case["size"]), tuple(case["resolution"]),
                       case["target"], case["max_scales"],
                       via_file=case.get("via") == "generate_scales_info")
    else:
        _eval_params(col, case["type"], case["encoding"], case["data_type"],
                     case["channels"], case["input_encoding"],
                     case["input_type"], case.get("extra_scale", False),
                     case.get("input_block_size"),
                     cli=case.get("via") == "command line")
    return col.records()
