"""C15 - slice stacks are assembled with the requested anatomical orientation.

E-INPUT: all 48 orientation codes x volume sizes x chunk sizes x pixel kinds
x storage options; real PNG slices are written, the real converter is run
and the full-resolution scale is read back and compared voxel by voxel with
an index-mapping reference.
"""
import itertools
import json
import os

import numpy as np

from mc import pipeline
from mc.env import sandbox
from mc.runner import Collector

ID = "C15"
LEVEL = "exploration"
REQUIRED_CLASSES = ["ok"]
RULE = ("all 48 orientation codes x RAS sizes x chunk sizes x pixel kinds "
        "{grey uint8, grey uint16, RGB uint8, two directories = 2 channels, "
        "RGB + grey directory = 4 channels, an 8-bit and a 16-bit directory in either order} x file names {zero-padded, 12 "
        "slices with un-padded numbers}; 16-bit slices into an 8-bit dataset; a share of the cases through the console script main(argv) "
        "x storage {flat no-gzip, deep gzip, sharded(1,1,0) for cubic "
        "chunks}, plus label stacks stored as compressed_segmentation for "
        "all 48 codes, also with 2 and 3 channels sharing their label sets (quick: 2 sizes x 2 chunk sizes x 2 pixel kinds x 1-2 "
        "storages; thorough: 6 x 5 x 4 x 3); slice counts smaller than, "
        "equal to and not divisible by the chunk depth occur for every "
        "axis. Each case writes real PNG files, runs "
        "convert_slices_in_directory and reads every chunk back through a "
        "fresh accessor. Non-trivial: the code is not RAS or the stack "
        "spans >= 2 slice groups.")
ASSUMPTIONS = [
    "code letters name, in order, the direction of increasing column index, "
    "row index and slice number (script help text); R/A/S are the positive "
    "directions of x/y/z",
    "slices are position-coded so that any permutation/flip/offset error "
    "changes at least one voxel",
]
HOW_TO_READ = ("case: stack[k][r][c] = code(c,r,k); directories of PNG "
               "slices; convert_slices_in_directory(dirs, dest, code, "
               "options); expected out[x,y,z] per the orientation code")

AXIS = {"R": 0, "L": 0, "A": 1, "P": 1, "S": 2, "I": 2}
POSITIVE = set("RAS")


def all_codes():
    out = []
    for perm in itertools.permutations(range(3)):
        for signs in itertools.product((0, 1), repeat=3):
            letters = ["RL", "AP", "SI"]
            out.append("".join(letters[perm[j]][signs[j]] for j in range(3)))
    return sorted(out)


def dir_pixel(kind, ch):
    """pixel type of the directory that delivers channel ch"""
    if kind == "mixed-8-16":
        return "uint8" if ch == 0 else "uint16"
    if kind == "mixed-16-8":
        return "uint16" if ch == 0 else "uint8"
    return kind


def stack_value(c, r, k, ch, kind):
    kind = dir_pixel(kind, ch)
    """position code; distinct for all positions of the sizes used"""
    if kind.endswith("-labels"):
        # few labels, the same label sets in every channel
        return ((c // 2 + 2 * (r // 2) + k // 2 + ch) % 3) * 90 + 5
    v = 1 + c + 7 * r + 41 * k + 3 * ch
    if kind == "uint16":
        return (v * 257 + 300) % 65536
    return v % 251 + 1


def expected_volume(code, size, nch, kind):
    """(C,Z,Y,X) reference from the orientation code"""
    a = [AXIS[ch] for ch in code]            # RAS axis of col,row,slice
    n = [size[a[0]], size[a[1]], size[a[2]]]  # ncols, nrows, nslices
    dt = np.uint16 if (kind == "uint16" or kind.startswith("mixed")) \
        else np.uint8
    out = np.zeros((nch, size[2], size[1], size[0]), dtype=dt)
    for k in range(n[2]):
        for r in range(n[1]):
            for c in range(n[0]):
                idx = [c, r, k]
                pos = [0, 0, 0]
                for j in range(3):
                    pos[a[j]] = idx[j] if code[j] in POSITIVE \
                        else n[j] - 1 - idx[j]
                for ch in range(nch):
                    out[ch, pos[2], pos[1], pos[0]] = stack_value(
                        c, r, k, ch, kind)
    return out, n


def write_slices(d, code, size, kind, names="padded", dir_names=None):
    import PIL.Image
    a = [AXIS[ch] for ch in code]
    n = [size[a[0]], size[a[1]], size[a[2]]]
    ndirs = 2 if (kind.startswith("two-dirs") or kind == "rgb-grey"
                  or kind.startswith("mixed")) else 1
    # slices are taken in lexicographic order of their file names (the
    # script's documented rule): with un-padded numbers that is not the
    # numeric order
    if names == "unpadded":
        fnames = sorted("s%d.png" % i for i in range(n[2]))
    else:
        fnames = ["s%04d.png" % i for i in range(n[2])]
    dirs = []
    for di in range(ndirs):
        sd = os.path.join(d, dir_names[di] if dir_names
                          else "slices%d" % di)
        os.makedirs(sd)
        dirs.append(sd)
        for k in range(n[2]):
            if kind.startswith("rgb") and not (kind == "rgb-grey"
                                               and di == 1):
                img = np.zeros((n[1], n[0], 3), dtype=np.uint8)
                for ch in range(3):
                    for r in range(n[1]):
                        for c in range(n[0]):
                            img[r, c, ch] = stack_value(c, r, k, ch, kind)
                im = PIL.Image.fromarray(img, "RGB")
            else:
                dt = np.uint16 if dir_pixel(kind, di) == "uint16" \
                    else np.uint8
                img = np.zeros((n[1], n[0]), dtype=dt)
                for r in range(n[1]):
                    for c in range(n[0]):
                        img[r, c] = stack_value(
                            c, r, k, 3 if kind == "rgb-grey" else di, kind)
                im = PIL.Image.fromarray(img)
            p = os.path.join(sd, fnames[k])
            im.save(p)
            back = np.asarray(PIL.Image.open(p))
            assert np.array_equal(back, img), "PNG writer self-check"
    return dirs, n


def _eval(col, case):
    d = sandbox.fresh_dir("c15")
    try:
        _eval_in(col, case, d)
    finally:
        sandbox.drop_captured_exit_handlers()
        sandbox.rm(d)


def _eval_in(col, case, d):
    from pathlib import Path

    from neuroglancer_scripts.scripts import slices_to_precomputed as s2p
    code, size, cs, kind = (case["code"], case["size"], case["chunk"],
                            case["pixels"])
    nch = {"uint8": 1, "uint16": 1, "rgb": 3, "two-dirs": 2,
           "rgb-labels": 3, "two-dirs-labels": 2, "rgb-grey": 4,
           "mixed-8-16": 2, "mixed-16-8": 2}[kind]
    dirs, n = write_slices(d, code, size, kind, case.get("names", "padded"),
                           case.get("dir_names"))
    dest = os.path.join(d, "ds")
    os.makedirs(dest)
    scale = {"key": "full", "size": list(size), "chunk_sizes": [list(cs)],
             "resolution": [1000, 1000, 1000], "voxel_offset": [0, 0, 0],
             "encoding": "raw"}
    if case.get("encoding") == "compressed_segmentation":
        scale["encoding"] = "compressed_segmentation"
        scale["compressed_segmentation_block_size"] = [2, 2, 2]
    st = case["storage"]
    opts = {"flat": False, "gzip": True}
    if st == "flat-nogzip":
        opts = {"flat": True, "gzip": False}
    elif st == "sharded":
        scale["sharding"] = {"@type": "neuroglancer_uint64_sharded_v1",
                             "hash": "identity", "minishard_bits": 1,
                             "shard_bits": 1, "preshift_bits": 0,
                             "minishard_index_encoding": "raw",
                             "data_encoding": "raw"}
    info = {"type": "image", "num_channels": nch,
            "data_type": "uint16" if (kind == "uint16"
                                      or kind.startswith("mixed"))
            else "uint8",
            "scales": [scale]}
    if case.get("dataset_type"):
        # pixel type wider than the dataset's: values are converted with the
        # package's documented conversion (round, saturate - property C11)
        info["data_type"] = case["dataset_type"]
    if case.get("encoding") == "compressed_segmentation":
        info["type"], info["data_type"] = "segmentation", "uint32"
    with open(os.path.join(dest, "info"), "w") as f:
        json.dump(info, f)
    a = [AXIS[ch] for ch in code]
    depth = cs[a[2]]
    groups = -(-n[2] // depth)
    nontriv = 1 if (code != "RAS" or groups >= 2) else 0
    sandbox.install_atexit_capture()
    try:
        if case.get("via_cli"):
            # the console script (argument parsing and defaults included);
            # "RAS" is its default orientation and is then not passed
            argv = [str(p) for p in dirs] + [dest]
            if code != "RAS" or case.get("spelling"):
                # the script upper-cases the value it parsed; a spelling it
                # accepts must be converted like the upper-case code
                argv += ["--input-orientation",
                         {None: code, "lower": code.lower(),
                          "mixed": code[0] + code[1:].lower()}[
                             case.get("spelling")]]
            argv += (["--flat"] if opts["flat"] else []) + (
                [] if opts["gzip"] else ["--no-gzip"])
            r = sandbox.run_cli("slices_to_precomputed", argv)
            if case.get("spelling") and r.exc is None and r.status == 2:
                # the command line refused the spelling (usage error)
                col.ev(1, 0, "spelling-refused")
                return
            if r.exc is not None:
                raise r.exc
            if r.status:
                raise RuntimeError("exit status %r: %s" % (r.status,
                                                           r.err[-200:]))
            errs = list(r.exit_errors)
        else:
            with sandbox.quiet():
                s2p.convert_slices_in_directory([Path(p) for p in dirs],
                                                dest, code, options=opts)
                errs = sandbox.run_captured_exit_handlers()
        if errs:
            raise errs[0]
    except Exception as exc:
        col.ev(1, nontriv, "convert-exception")
        rev = "reversed-slice-axis" if code[2] not in POSITIVE \
            else "forward-slice-axis"
        col.violation("C15/convert/exception/%s/%s" % (type(exc).__name__,
                                                       rev),
                      case, "converted", repr(exc)[:200])
        return
    want, _ = expected_volume(code, size, nch, kind)
    try:
        pio = pipeline.open_dataset(dest)
        got = pipeline.read_scale(pio, 0)
    except Exception as exc:
        col.ev(1, nontriv, "readback-exception")
        col.violation("C15/readback/exception/" + type(exc).__name__, case,
                      "every chunk readable", repr(exc)[:200])
        return
    if case.get("encoding") == "compressed_segmentation":
        want = want.astype("uint32")
    if case.get("dataset_type"):
        lim = np.iinfo(case["dataset_type"])
        want = np.clip(want.astype(np.int64), lim.min, lim.max).astype(
            case["dataset_type"])
    if got.shape != want.shape or got.dtype.newbyteorder("=") != want.dtype:
        col.ev(1, nontriv, "bad")
        col.violation("C15/volume/shape-or-dtype", case,
                      "%s %r" % (want.dtype, want.shape),
                      "%s %r" % (got.dtype, got.shape))
        return
    if not np.array_equal(got, want):
        bad = np.argwhere(got != want)
        col.ev(1, nontriv, "bad")
        col.violation("C15/volume/wrong-voxels", case,
                      "voxel (c,z,y,x)=%s is %d" % (bad[0].tolist(),
                                                    want[tuple(bad[0])]),
                      "%d (%d voxels differ)" % (got[tuple(bad[0])],
                                                 len(bad)))
        return
    col.ev(1, nontriv, "ok")


def cases(tier):
    out = []
    codes = all_codes()
    if tier == "quick":
        sizes = [(4, 3, 5), (2, 1, 3)]
        chunks = [(2, 2, 2), (4, 4, 4)]
        kinds = ["uint8", "rgb"]
    else:
        sizes = [(4, 3, 5), (2, 2, 2), (3, 1, 4), (5, 5, 1), (1, 1, 1),
                 (6, 2, 9)]
        chunks = [(2, 2, 2), (4, 4, 4), (8, 8, 8), (1, 2, 4), (3, 3, 3)]
        kinds = ["uint8", "uint16", "rgb", "two-dirs"]
    for code in codes:
        for size in sizes:
            for cs in chunks:
                for kind in kinds:
                    storages = ["flat-nogzip", "deep-gzip"]
                    if len(set(cs)) == 1:
                        storages.append("sharded")
                    if tier == "quick":
                        i = (codes.index(code) + sizes.index(size)
                             + chunks.index(cs)) % len(storages)
                        storages = [storages[i]]
                        if kind == "rgb" and size != sizes[0]:
                            continue
                    for st in storages:
                        out.append({"code": code, "size": list(size),
                                    "chunk": list(cs), "pixels": kind,
                                    "storage": st})
    # label stacks stored as compressed_segmentation (all 48 codes)
    for code in codes:
        for size, cs in (((4, 6, 5), (4, 4, 4)), ((6, 4, 2), (2, 2, 2))):
            if tier == "quick" and size != (4, 6, 5):
                continue
            out.append({"code": code, "size": list(size), "chunk": list(cs),
                        "pixels": "uint8", "storage": "flat-nogzip",
                        "encoding": "compressed_segmentation"})
    # multi-channel label stacks (same label sets in every channel)
    for code in codes:
        for kind in ("two-dirs-labels", "rgb-labels"):
            if tier == "quick" and (codes.index(code) % 8 != (
                    0 if kind == "rgb-labels" else 3)):
                continue
            out.append({"code": code, "size": [4, 6, 5], "chunk": [4, 4, 4],
                        "pixels": kind, "storage": "flat-nogzip",
                        "encoding": "compressed_segmentation"})
    # more than 9 slices with un-padded numbers in their names, and an RGB
    # directory followed by a grey-level one (4 channels)
    for code in codes:
        i = codes.index(code)
        if tier == "quick" and i % 6 not in (1, 4):
            continue
        if tier == "thorough" or i % 6 == 1:
            sz = [3, 2, 2]
            sz[AXIS[code[2]]] = 12
            out.append({"code": code, "size": sz, "chunk": [4, 4, 4],
                        "pixels": "uint8", "storage": "flat-nogzip",
                        "names": "unpadded"})
        if tier == "thorough" or i % 6 == 4:
            out.append({"code": code, "size": [4, 3, 5], "chunk": [2, 2, 2],
                        "pixels": "rgb-grey", "storage": "flat-nogzip"})
    # two directories with different pixel types (8-bit and 16-bit)
    for code in codes:
        i = codes.index(code)
        if tier == "quick" and i % 12 not in (2, 9):
            continue
        out.append({"code": code, "size": [4, 3, 5], "chunk": [2, 2, 2],
                    "pixels": "mixed-8-16" if i % 2 == 0 else "mixed-16-8",
                    "storage": "flat-nogzip"})
        if tier == "thorough":
            out.append({"code": code, "size": [4, 3, 5], "chunk": [2, 2, 2],
                        "pixels": "mixed-16-8" if i % 2 == 0
                        else "mixed-8-16", "storage": "deep-gzip"})
    # 16-bit slices into an 8-bit dataset (values beyond 255 saturate)
    for code in codes:
        if tier == "quick" and codes.index(code) % 12 != 5:
            continue
        out.append({"code": code, "size": [4, 3, 5], "chunk": [2, 2, 2],
                    "pixels": "uint16", "storage": "flat-nogzip",
                    "dataset_type": "uint8"})
    # through the console script
    for code in codes:
        i = codes.index(code)
        if tier == "quick" and i % 8 != 3 and code != "RAS":
            continue
        out.append({"code": code, "size": [4, 3, 5], "chunk": [2, 2, 2],
                    "pixels": "uint8" if i % 2 else "two-dirs",
                    "storage": ("flat-nogzip", "deep-gzip", "sharded")[i % 3],
                    "via_cli": True})
        # directories whose command-line order is not their lexicographic
        # order (each directory is one channel, in the order given); the
        # orientation code in lower / mixed case
        out.append({"code": code, "size": [4, 3, 5], "chunk": [2, 2, 2],
                    "pixels": "two-dirs", "storage": "flat-nogzip",
                    "dir_names": [["red", "green"], ["ch10", "ch9"],
                                  ["b", "a"]][i % 3],
                    "spelling": ["lower", "mixed", None][(i // 3) % 3],
                    "via_cli": True})
    # quick also covers the other two pixel kinds on a few codes
    if tier == "quick":
        for code in ("RAS", "LPI", "SRA", "IPL", "ASR", "PIR"):
            for kind in ("uint16", "two-dirs"):
                out.append({"code": code, "size": [4, 3, 5],
                            "chunk": [2, 2, 2], "pixels": kind,
                            "storage": "sharded"})
                out.append({"code": code, "size": [3, 2, 7],
                            "chunk": [1, 2, 4], "pixels": kind,
                            "storage": "deep-gzip"})
    return out


def units(tier):
    cs = cases(tier)
    per = 12
    return [{"cases": cs[i:i + per]} for i in range(0, len(cs), per)]


def space(tier):
    return {"codes": 48, "cases": len(cases(tier))}


def run_unit(u):
    col = Collector()
    for case in u["cases"]:
        _eval(col, case)
    col.sample(u["cases"][0])
    return col.result()


def replay(case):
    col = Collector()
    _eval(col, case)
    return col.records()
