"""C05 - sharded storage returns what was stored, whatever the order of writes.

E-STATE: BFS over every store order of every subset of small chunk grids on
the real ShardedFileAccessor (full writer state hashed), closed/reopened/
fetched in every state; byte identity of shard files per subset across all
orders and across the two buffering strategies.
"""
import itertools

from mc import sharded_explore as se
from mc.runner import Collector

ID = "C05"
LEVEL = "model_checking"
FAMILY = "C05/"
REQUIRED_CLASSES = ["bfs-config-ok", "ondisk-config-ok", "two-scale-ok"]
RULE = ("one unit = one configuration (grid x (minishard,shard,preshift) "
        "bit triple x index/data encoding). In-memory strategy: BFS from the "
        "empty writer, transition = store of one not-yet-stored chunk, "
        "states deduplicated on (stored subset, hash of every MiniShard "
        "field); EVERY state is closed (on a deep copy), reopened with a "
        "fresh accessor and every chunk of the grid fetched. On-disk "
        "strategy: for every subset the ascending and the descending store "
        "order (all permutations for grids <= 4 chunks) are replayed and the "
        "shard files compared byte for byte with the BFS result. "
        "Two-scale family: on ONE accessor store any subset of scale s0, close, "
        "store any subset of scale s1, close, close again (the pattern "
        "compute-scales uses), ascending and descending, both strategies; "
        "the same with a single close after both scales (the pattern "
        "convert-chunks uses) and with the two scales' chunks stored "
        "alternately - all three must give byte-identical shard files. "
        "Big-payload family: three chunk-length patterns (0..12289 bytes "
        "around the 4096-byte block size of the write buffers; small chunks "
        "after big ones; 1..131073 bytes so that one minishard exceeds 64 "
        "KiB; payloads that look like zlib / gzip streams in raw datasets), grids "
        "of 64 and 125 chunks spread over 64 .. 128 shards, 4 orders x both "
        "strategies. "
        "Non-trivial states: >= 2 chunks stored.")
ASSUMPTIONS = [
    "one write session per scale, each chunk stored once (the statement's "
    "scope); payloads are distinct byte strings of length 0..6",
    "the on-disk strategy is explored by history replay (its buffers are "
    "files and cannot be deep-copied)",
]
HOW_TO_READ = ("case: sharded info with size/chunk/triple=(minishard_bits,"
               "shard_bits,preshift_bits)/encodings; store chunks in 'order' "
               "(indices, x fastest) with strategy, close, reopen, fetch "
               "chunk 'fetch'")

GRIDS_Q = [((1, 1, 1), 1), ((2, 1, 1), 1), ((3, 1, 1), 1), ((1, 2, 2), 1),
           ((5, 1, 1), 1), ((3, 2, 1), 1), ((1, 3, 2), 1), ((2, 1, 3), 1),
           ((5, 3, 1), 2), ((1, 1, 6), 1)]
GRIDS_T = GRIDS_Q + [((2, 2, 2), 1), ((3, 3, 1), 1), ((7, 1, 1), 1),
                     ((4, 2, 1), 1), ((1, 1, 9), 1), ((3, 4, 3), 2),
                     ((2, 2, 2), 2)]
EXTRA_TRIPLES = [(0, 0, 3), (3, 0, 0), (1, 1, 62), (0, 3, 1), (4, 0, 0)]
ENCODINGS = [("raw", "raw"), ("gzip", "gzip"), ("raw", "gzip"),
             ("gzip", "raw")]


def triples(tier):
    t = list(itertools.product(range(3), repeat=3))
    return t + EXTRA_TRIPLES


def configs(tier):
    grids = GRIDS_Q if tier == "quick" else GRIDS_T
    out = []
    for size, c in grids:
        for t in triples(tier):
            for ie, de in ENCODINGS:
                out.append({"size": list(size), "chunk": c,
                            "triple": list(t), "index_enc": ie,
                            "data_enc": de})
    out.sort(key=lambda x: len(se.chunk_list(x["size"], x["chunk"])))
    return out


def units(tier):
    cf = configs(tier)
    per = 6
    u = [{"configs": cf[i:i + per], "tier": tier}
         for i in range(0, len(cf), per)]
    two = []
    for size, c in (TWO_SCALE_GRIDS[:2] if tier == "quick"
                    else TWO_SCALE_GRIDS):
        for t in ((0, 0, 0), (1, 1, 0), (1, 0, 1), (2, 1, 1), (0, 2, 0)):
            for ie, de in (("raw", "raw"), ("gzip", "gzip")):
                two.append({"size": list(size), "chunk": c,
                            "triple": list(t), "index_enc": ie,
                            "data_enc": de})
    u += [{"kind": "two-scale", "configs": two[i:i + 2], "tier": tier}
          for i in range(0, len(two), 2)]
    bc = big_configs()
    u += [{"kind": "big", "configs": bc[i:i + 4], "tier": tier}
          for i in range(0, len(bc), 4)]
    u += [{"kind": "huge-grid", "grid": list(g), "tier": tier}
          for g in HUGE_GRIDS]
    return u


# grids of 2^33 .. 2^63 chunks: identifiers beyond 2^32 and 2^53
# (log2 chunks per axis, (minishard, shard, preshift) bits)
HUGE_GRIDS = [(18, (1, 53, 0)), (18, (0, 54, 0)), (18, (2, 50, 2)),
              (18, (4, 50, 0)), (21, (1, 62, 0)), (11, (1, 32, 0)),
              (11, (3, 28, 2)), (16, (1, 47, 0)), (19, (3, 40, 12))]


def _eval_huge_grid(col, logn, triple, strategy, order, replaying=False):
    """a handful of chunks whose identifiers have the top bits set, stored
    in the given order and fetched back (plus probes of chunks that were
    never stored) with the package's own reader"""
    import json
    import os

    from mc.env import sandbox
    from neuroglancer_scripts import accessor, sharded_file_accessor
    n = 1 << logn
    mb, sb, pb = triple
    sharding = {"@type": "neuroglancer_uint64_sharded_v1",
                "hash": "identity", "minishard_bits": mb, "shard_bits": sb,
                "preshift_bits": pb, "minishard_index_encoding": "raw",
                "data_encoding": "raw"}
    info = {"type": "image", "data_type": "uint8", "num_channels": 1,
            "scales": [{"key": se.KEY, "size": [n, n, n],
                        "chunk_sizes": [[1, 1, 1]], "resolution": [1, 1, 1],
                        "voxel_offset": [0, 0, 0], "encoding": "raw",
                        "sharding": sharding}]}
    pos = [(n - 1, n - 1, n - 1), (n - 1, 0, 0), (1, n - 1, 0),
           (n // 2 + 1, 1, n - 1), (1, 0, n // 2), (0, 0, 0), (1, 1, 1),
           (n - 1, n - 1, n - 2), (n - 2, n - 1, n - 1)]
    absent = [(n - 2, n - 2, n - 2), (2, 2, 2), (n - 1, 1, 0)]
    case = {"kind": "huge-grid", "log2_chunks_per_axis": logn,
            "triple": list(triple), "strategy": strategy,
            "order": list(order)}

    def box(p3):
        x, y, z = p3
        return (x, x + 1, y, y + 1, z, z + 1)

    d = sandbox.fresh_dir("c05h")
    ok = True
    try:
        with open(os.path.join(d, "info"), "w") as f:
            json.dump(info, f)
        sandbox.install_atexit_capture()
        try:
            if strategy == "on disk":
                acc = accessor.get_accessor_for_url(d)
            else:
                acc = sharded_file_accessor.ShardedFileAccessor(
                    d, strategy="in memory")
            for k in order:
                acc.store_chunk(bytes([k + 1]) * (k + 1), se.KEY,
                                box(pos[k]))
            with sandbox.quiet():
                acc.close()
        except Exception as exc:
            col.ev(1, 1, "huge-grid-bad")
            col.violation("C05/huge-grid/store-or-close-failed/"
                          + type(exc).__name__, case, "stored",
                          repr(exc)[:200])
            return
        finally:
            sandbox.drop_captured_exit_handlers()
        rd = accessor.get_accessor_for_url(d)
        sandbox.drop_captured_exit_handlers()
        # absent probes are interleaved with the fetches of stored chunks
        for k in list(order) + sorted(order):
            for p3 in absent[:1 + k % 3]:
                try:
                    got = rd.fetch_chunk(se.KEY, box(p3))
                    if got:
                        ok = False
                        col.violation(
                            "C05/huge-grid/never-stored-chunk-has-data",
                            dict(case, position=list(p3)), "absent",
                            bytes(got).hex()[:40])
                except Exception:
                    pass
            want = bytes([k + 1]) * (k + 1)
            try:
                got = rd.fetch_chunk(se.KEY, box(pos[k]))
            except Exception as exc:
                ok = False
                col.violation("C05/huge-grid/fetch-failed/"
                              + type(exc).__name__,
                              dict(case, position=list(pos[k])), want.hex(),
                              repr(exc)[:200])
                continue
            if bytes(got) != want:
                ok = False
                col.violation("C05/huge-grid/wrong-bytes",
                              dict(case, position=list(pos[k])), want.hex(),
                              bytes(got).hex()[:40])
        col.r["traces"] += 1
        col.r["states"] += 1
        col.r["transitions"] += len(order)
        col.ev(1, 1, "huge-grid-ok" if ok else "huge-grid-bad")
    finally:
        sandbox.rm(d)


def huge_orders(tier):
    full = list(range(9))
    orders = [full, full[::-1], [4, 0, 8, 2, 6, 1, 7, 3, 5], [0, 7, 8],
              [8, 7, 0], [5, 6], [3]]
    if tier == "thorough":
        orders += [list(p) for p in itertools.permutations((0, 1, 7, 8))]
    return orders


def space(tier):
    grids = GRIDS_Q if tier == "quick" else GRIDS_T
    return {"grids": len(grids), "triples": len(triples(tier)),
            "encodings": len(ENCODINGS), "configs": len(configs(tier)),
            "strategies": 2, "two_scale_configs": 20 if tier == "quick"
            else 40}


def _report(col, vio, family):
    n = 0
    for sig, case, exp, obs in vio.items:
        if sig.startswith(family):
            n += 1
            col.violation(sig, case, exp, obs)
    return n


BIG_GRIDS = [((3, 1, 1), 1), ((3, 2, 1), 1), ((5, 3, 1), 2)]
BIG_TRIPLES = [(0, 0, 0), (1, 1, 0), (1, 0, 1), (0, 1, 0)]


def big_configs():
    """payloads of 0..12289 bytes (around the 4096-byte block size the
    write buffers are read back with)"""
    out = []
    for mode in ("big", "big2", "huge"):
        for size, c in BIG_GRIDS:
            for t in BIG_TRIPLES:
                for ie, de in (("raw", "raw"), ("gzip", "raw")):
                    if mode == "huge" and (ie == "gzip" or t == (1, 0, 1)):
                        continue
                    out.append({"size": list(size), "chunk": c,
                                "triple": list(t), "index_enc": ie,
                                "data_enc": de, "payloads": mode})
    # payloads that look like compressed streams, raw and gzip datasets
    for size, c in BIG_GRIDS[:2]:
        for t in BIG_TRIPLES[:2]:
            for ie, de in (("raw", "raw"), ("raw", "gzip"), ("gzip", "raw")):
                out.append({"size": list(size), "chunk": c,
                            "triple": list(t), "index_enc": ie,
                            "data_enc": de, "payloads": "magic"})
    # more than 32 / 64 shards touched in one write session
    for t in ((0, 6, 0), (1, 6, 0), (0, 7, 0), (2, 5, 1)):
        out.append({"size": [4, 4, 4], "chunk": 1, "triple": list(t),
                    "index_enc": "raw", "data_enc": "raw",
                    "payloads": "big2" if t == (0, 7, 0) else "magic"})
    out.append({"size": [5, 5, 5], "chunk": 1, "triple": [0, 7, 0],
                "index_enc": "raw", "data_enc": "raw", "payloads": "magic"})
    return out


def big_unit(col, configs, family, pkg, spec):
    """four store orders x both strategies with big payloads; all runs
    storing the same subset must give byte-identical files"""
    for cfg in configs:
        n = len(se.chunk_list(cfg["size"], cfg["chunk"]))
        orders = [tuple(range(n)), tuple(range(n))[::-1],
                  tuple(range(0, n, 2)), tuple(range(0, n, 2))[::-1]]
        ref = {}
        for strategy in ("in memory", "on disk"):
            c = dict(cfg, strategy=strategy)
            for order in orders:
                vio = se.Violations()
                dg = se.run_history(c, order, vio, pkg=pkg, spec=spec)
                key = tuple(sorted(order))
                if dg is not None:
                    if key in ref and ref[key][0] != dg:
                        vio.add("C05/bytes/shard-files-differ-across-store-"
                                "orders", se.case_of(
                                    c, order, other_order=list(ref[key][1])),
                                "byte-identical shard files",
                                "different bytes")
                    ref.setdefault(key, (dg, order))
                col.r["traces"] += 1
                col.r["states"] += 1
                col.r["transitions"] += len(order)
                bad = _report(col, vio, family)
                col.ev(1, 1, "big-payload-ok" if not bad
                       else "big-payload-violating")
    col.sample(se.case_of(dict(configs[0], strategy="on disk"), [0, 1, 2]))


def explore_config(col, cfg, tier, family, pkg, spec, ondisk=True):
    cfg = dict(cfg)
    cfg["strategy"] = "in memory"
    vio = se.Violations()
    st = se.bfs(cfg, vio, pkg=pkg, spec=spec)
    col.r["states"] += st["states"]
    col.r["transitions"] += st["transitions"]
    col.r["traces"] += st["traces"]
    col.r["max_depth"] = max(col.r["max_depth"], st["max_depth"])
    col.extra("subsets", st["subsets"])
    col.extra("confluence_breaks", st["confluence_breaks"])
    if st["capped"]:
        col.r["capped"] = True
    bad = _report(col, vio, family)
    col.ev(st["traces"], max(0, st["states"] - 1 - len(
        se.chunk_list(cfg["size"], cfg["chunk"]))),
        "bfs-config-ok" if not bad else "bfs-config-violating")
    if not ondisk:
        return
    # ---- the other buffering strategy, by history replay
    cfg2 = dict(cfg)
    cfg2["strategy"] = "on disk"
    n = len(se.chunk_list(cfg["size"], cfg["chunk"]))
    vio2 = se.Violations()
    runs = 0
    for r in range(n + 1):
        for sub in itertools.combinations(range(n), r):
            if n <= 4:
                orders = list(itertools.permutations(sub))
            else:
                orders = [sub, sub[::-1]] if len(sub) > 1 else [sub]
            for order in orders:
                dg = se.run_history(cfg2, order, vio2, pkg=pkg, spec=spec)
                runs += 1
                ref = st["digests"].get(frozenset(order))
                if dg is not None and ref is not None and dg != ref[0]:
                    # same order with the other strategy decides which of
                    # the two identities is broken
                    dgm = se.run_history(cfg, order, se.Violations(),
                                         pkg=False, spec=False)
                    if dgm == dg:
                        vio2.add("C05/bytes/shard-files-differ-across-"
                                 "store-orders",
                                 se.case_of(cfg2, order,
                                            other_order=list(ref[1])),
                                 "byte-identical shard files",
                                 "different bytes")
                    else:
                        vio2.add("C05/bytes/shard-files-differ-across-"
                                 "buffering-strategies",
                                 se.case_of(cfg2, order),
                                 "byte-identical to the in-memory strategy",
                                 "different bytes")
    col.r["traces"] += runs
    bad2 = _report(col, vio2, family)
    col.ev(runs, 0, "ondisk-config-ok" if not bad2
           else "ondisk-config-violating")


TWO_SCALE_GRIDS = [((2, 2, 1), 1), ((3, 1, 1), 1), ((4, 1, 1), 1),
                   ((3, 3, 1), 2)]


def two_scale_config(col, cfg, family, pkg=True, spec=False):
    """store into s0, close, store into s1, close, close - on ONE accessor
    (what compute_dyadic_scales does); every subset of both scales in
    ascending and descending order, both strategies"""
    n0 = len(se.chunk_list(cfg["size"], cfg["chunk"]))
    size1 = [-(-x // 2) for x in cfg["size"]]
    n1 = len(se.chunk_list(size1, cfg["chunk"]))
    bad = 0
    runs = 0
    for strategy in ("in memory", "on disk"):
        c = dict(cfg, strategy=strategy)
        for r0 in range(n0 + 1):
            for s0 in itertools.combinations(range(n0), r0):
                for r1 in range(n1 + 1):
                    for s1 in itertools.combinations(range(n1), r1):
                        ref = None
                        for o0, o1 in ((s0, s1), (s0[::-1], s1[::-1])):
                            for mode in ("close-between", "single-close",
                                         "alternating"):
                                vio = se.Violations()
                                dg = se.run_two_scale(c, o0, o1, vio,
                                                      pkg=pkg, spec=spec,
                                                      mode=mode)
                                runs += 1
                                if ref is None:
                                    ref = dg
                                elif dg is not None and dg != ref:
                                    vio.add(
                                        "C05/bytes/shard-files-differ-"
                                        "across-write-interleavings",
                                        se.case_of(c, o0,
                                                   order_s1=list(o1),
                                                   family="two-scale",
                                                   mode=mode),
                                        "byte-identical shard files",
                                        "different bytes")
                                bad += _report(col, vio, family)
    col.r["traces"] += runs
    col.r["states"] += runs
    col.r["transitions"] += runs
    col.ev(runs, runs, "two-scale-ok" if not bad else "two-scale-violating")


def run_unit(u):
    col = Collector()
    if u.get("kind") == "big":
        big_unit(col, u["configs"], FAMILY, pkg=True, spec=False)
        return col.result()
    if u.get("kind") == "huge-grid":
        logn, triple = u["grid"]
        for strategy in ("in memory", "on disk"):
            for order in huge_orders(u["tier"]):
                _eval_huge_grid(col, logn, tuple(triple), strategy, order)
        col.sample({"kind": "huge-grid", "log2_chunks_per_axis": logn,
                    "triple": list(triple), "strategy": "in memory",
                    "order": [0, 7, 8]})
        return col.result()
    if u.get("kind") == "two-scale":
        for cfg in u["configs"]:
            two_scale_config(col, cfg, FAMILY)
        col.sample(se.case_of(dict(u["configs"][0], strategy="on disk"),
                              [1, 0], order_s1=[0], family="two-scale"))
        return col.result()
    for cfg in u["configs"]:
        ondisk = (u["tier"] == "thorough"
                  or tuple(cfg["triple"]) in ((0, 0, 0), (1, 1, 0),
                                              (1, 0, 1), (2, 1, 1),
                                              (0, 2, 0), (1, 1, 62)))
        explore_config(col, cfg, u["tier"], FAMILY, pkg=True, spec=False,
                       ondisk=ondisk)
        if not ondisk:
            col.cls("ondisk-config-skipped-in-quick")
    c = dict(u["configs"][-1])
    c["strategy"] = "in memory"
    col.sample(se.case_of(c, list(range(len(se.chunk_list(
        c["size"], c["chunk"]))))[::-1]))
    return col.result()


def replay(case, family=FAMILY, pkg=True, spec=False):
    col = Collector()
    if case.get("kind") == "huge-grid":
        _eval_huge_grid(col, case["log2_chunks_per_axis"],
                        tuple(case["triple"]), case["strategy"],
                        case["order"])
        return col.records()
    vio = se.Violations()
    cfg = {k: case[k] for k in ("size", "chunk", "triple", "index_enc",
                                "data_enc", "strategy")}
    if case.get("payloads"):
        cfg["payloads"] = case["payloads"]
    if case.get("family") == "two-scale":
        dg = se.run_two_scale(cfg, tuple(case["order"]),
                              tuple(case["order_s1"]), vio, pkg=pkg,
                              spec=spec,
                              mode=case.get("mode", "close-between"))
        if case.get("mode"):
            o0 = tuple(sorted(case["order"]))
            o1 = tuple(sorted(case["order_s1"]))
            dg0 = se.run_two_scale(cfg, o0, o1, se.Violations(), pkg=False,
                                   spec=False)
            if dg is not None and dg0 is not None and dg != dg0:
                vio.add("C05/bytes/shard-files-differ-across-write-"
                        "interleavings", dict(case), "byte-identical shard "
                        "files", "different bytes")
        for sig, c, exp, obs in vio.items:
            if sig.startswith(family):
                col.violation(sig, c, exp, obs)
        return col.records()
    dg = se.run_history(cfg, tuple(case["order"]), vio, pkg=pkg, spec=spec)
    if "other_order" in case:
        dg2 = se.run_history(cfg, tuple(case["other_order"]), se.Violations(),
                             pkg=False, spec=False)
        if dg is not None and dg2 is not None and dg != dg2:
            vio.add("C05/bytes/shard-files-differ-across-store-orders", case,
                    "byte-identical shard files", "different bytes")
    if case["strategy"] == "on disk":
        cfg2 = dict(cfg)
        cfg2["strategy"] = "in memory"
        dg2 = se.run_history(cfg2, tuple(case["order"]), se.Violations(),
                             pkg=False, spec=False)
        if dg is not None and dg2 is not None and dg != dg2:
            vio.add("C05/bytes/shard-files-differ-across-buffering-"
                    "strategies", case, "byte-identical", "different bytes")
    for sig, c, exp, obs in vio.items:
        if sig.startswith(family):
            if "fetch" in case and c.get("fetch") != case["fetch"]:
                continue
            col.violation(sig, c, exp, obs)
    return col.records()
