"""C06 - each pyramid level equals the whole previous level downscaled once.

E-INPUT: infos produced by the real scale generator over sizes x resolution
ratios x target chunk sizes, and a methods x dtypes x channels x storage
product; scale 0 is written position-coded, compute_dyadic_scales is run
twice with numpy.empty poisoned by two different values, and every level is
read back and compared with the package's own downscaler applied to the
whole previous level.
"""
import itertools
import json
import os

import numpy as np

from mc import pipeline
from mc.env import sandbox
from mc.props.C08 import base_info, envelope_ok
from mc.runner import Collector

ID = "C06"
LEVEL = "exploration"
REQUIRED_CLASSES = ["ok", "refused-outside-envelope"]
RULE = ("geometry product: sizes {1,2,3,5,9,17}^3 with <= 700 voxels + thin "
        "(33,2,1),(1,5,33),(40,3,1) x resolution triples from {1,1.5,2,3,4,"
        "8,16} with minimum 1 x target chunk {2,4,8}; a fixed arithmetic slice "
        "of that 75 819-element product is run (every 12th element in "
        "quick, every 2nd in thorough, offset by the size index so that "
        "every size, every resolution triple and every target occurs) with "
        "{stride, average/edge} on uint8, plus 6 volumes with an axis of "
        "257..65537 voxels (some keeping their length between two scales); "
        "method product: {stride, majority, "
        "average/edge, average/outside 0, average/outside 255} x dtype5 x "
        "channels {1,2} x storage {deep gzip, flat, compressed_segmentation "
        "(uint32/64), sharded(1,1,0)} on 12 geometries covering every "
        "(factor, fetch-factor) combination; method 'auto' resolved from the "
        "info type x outside value {None, 0, 255} on 3 geometries; a second computation after scale 0 was rewritten with other data; sharded levels are read both when compute_dyadic_scales returns and after the exit handlers; hand-made "
        "two-scale descriptions: axis x factor {1,2} x old chunk {1,2,4} x "
        "new chunk {1,2,3,4,8,16} x old size {16,13} (must be refused or "
        "right). Non-trivial: >= 2 scales and "
        "some new chunk assembled from >= 2 old chunks.")
ASSUMPTIONS = [
    "the downscaler itself is exact (C07); here it is applied to the whole "
    "assembled previous level as the reference",
    "an exception from compute_dyadic_scales is accepted only for scale "
    "pairs outside the supported envelope (C08.envelope_ok)",
    "on a size-1 axis whose resolution doubles both factor 1 and factor 2 "
    "are accepted",
]
HOW_TO_READ = ("case: fill_scales_for_dyadic_pyramid(size, resolution, "
               "target) -> info; scale 0 = position code; "
               "compute_dyadic_scales(io, get_downscaler(method, "
               "outside_value)); level 'scale' differs from downscale(whole "
               "level scale-1)")

SIZES = [s for s in itertools.product((1, 2, 3, 5, 9, 17), repeat=3)
         if s[0] * s[1] * s[2] <= 700] + [(33, 2, 1), (1, 5, 33), (40, 3, 1)]
RES = [r for r in itertools.product((1, 1.5, 2, 3, 4, 8, 16), repeat=3)
       if min(r) == 1]
TARGETS = [2, 4, 8]
METHODS = [("stride", None), ("majority", None), ("average", None),
           ("average", 0.0), ("average", 255.0)]


LONG = [((300, 6, 5), (2, 1, 1), 8), ((5, 6, 700), (1, 1, 4.5), 8),
        ((257, 2, 2), (1, 1, 1), 64), ((3, 513, 2), (1, 2, 1), 32),
        ((65537, 1, 2), (1, 1, 1), 64), ((2, 2, 1030), (1, 1, 3), 16)]


class Poison:
    """numpy.empty replaced by a poison fill for the duration of a run"""

    def __init__(self, value):
        self.value = value

    def __enter__(self):
        self.real = np.empty
        real_full = np.full
        value = self.value

        def poisoned(shape, dtype=float, order="C", **kw):
            return real_full(shape, value, dtype=dtype, order=order)
        np.empty = poisoned

    def __exit__(self, *a):
        np.empty = self.real


def level0(info):
    size = info["scales"][0]["size"]
    nch = info["num_channels"]
    c, z, y, x = np.meshgrid(np.arange(nch), np.arange(size[2]),
                             np.arange(size[1]), np.arange(size[0]),
                             indexing="ij")
    v = 1 + (7 * x + 31 * y + 53 * z + 97 * c) % 200
    if info["data_type"] == "float32":
        # values whose sums are not exactly representable in float32 (the
        # position code stays recoverable: distinct values)
        v = v * 0.3 + 1000.1
    return v.astype(info["data_type"])


def build_and_run(case, d, poison):
    """-> (info, levels list or None, exception or None, failing pair)"""
    from neuroglancer_scripts import (
        accessor,
        downscaling,
        dyadic_pyramid,
        precomputed_io,
    )
    size, res, target = case["size"], case["resolution"], case["target"]
    info = base_info(size, res, enc=case["encoding"], dtype=case["dtype"],
                     nch=case["channels"])
    if case["encoding"] == "compressed_segmentation":
        info["scales"][0]["compressed_segmentation_block_size"] = [8, 8, 8]
    if case["storage"] == "sharded":
        info["scales"][0]["sharding"] = {
            "@type": "neuroglancer_uint64_sharded_v1", "hash": "identity",
            "minishard_bits": 1, "shard_bits": 1, "preshift_bits": 0,
            "minishard_index_encoding": "raw", "data_encoding": "raw"}
    if case.get("scales"):
        # hand-made pyramid description (an info a user edited or wrote)
        sc0 = info["scales"][0]
        info["scales"] = []
        for k, sc in enumerate(case["scales"]):
            info["scales"].append(dict(
                sc0, key="s%d" % k, size=list(sc["size"]),
                chunk_sizes=[list(sc["chunk"])],
                resolution=list(sc["resolution"])))
    else:
        dyadic_pyramid.fill_scales_for_dyadic_pyramid(
            info, target_chunk_size=target)
    if case.get("via_cli") and case.get("select") == "auto":
        info["type"] = case["info_type"]
    ds = os.path.join(d, "ds%d" % poison)
    os.makedirs(ds)
    opts = {"flat": case["storage"] == "flat",
            "gzip": case["storage"] != "flat"}
    sandbox.install_atexit_capture()
    acc = accessor.get_accessor_for_url(
        ds, dict(opts, sharding=True) if case["storage"] == "sharded"
        else opts)
    pio = precomputed_io.get_IO_for_new_dataset(info, acc)
    l0 = level0(info)
    sc0 = info["scales"][0]
    for cc in pipeline.chunk_grid(sc0["size"], sc0["chunk_sizes"][0]):
        pio.write_chunk(np.ascontiguousarray(
            l0[:, cc[4]:cc[5], cc[2]:cc[3], cc[0]:cc[1]]), sc0["key"], cc)
    if case["storage"] == "sharded":
        acc.close()
    opt = {}
    if case["outside"] is not None:
        opt["outside_value"] = case["outside"]
    if case.get("select") == "auto":
        # the command-line default: method resolved from the info type; the
        # reference is the explicitly constructed downscaler
        info_for_auto = dict(info, type=case["info_type"])
        used = downscaling.get_downscaler("auto", info_for_auto, opt)
        ds_obj = downscaling.get_downscaler(case["method"], options=opt)
    else:
        ds_obj = used = downscaling.get_downscaler(case["method"],
                                                   options=opt)
    exc = None
    if case.get("via_cli"):
        # the console script: options parsed from a command line and
        # forwarded by main() (the exit handlers run inside run_cli)
        argv = []
        if case["storage"] == "flat":
            argv += ["--flat", "--no-gzip"]
        if case.get("select") != "auto":
            argv += ["--downscaling-method", case["method"]]
        if case["outside"] is not None:
            argv += ["--outside-value", repr(case["outside"])]
        argv = argv + [ds] if case["via_cli"] == 1 else [ds] + argv
        with Poison(poison), np.errstate(all="ignore"):
            r = sandbox.run_cli("compute_scales", argv)
        if r.status != 0 or r.exit_errors:
            return info, None, r.exc or RuntimeError(
                "exit status %r %r" % (r.status, r.exit_errors)), ds_obj
        try:
            rd = pipeline.open_dataset(ds, opts)
            return info, [pipeline.read_scale(rd, i)
                          for i in range(len(info["scales"]))], None, ds_obj
        except Exception as e:
            return info, None, Unreadable(repr(e)[:200]), ds_obj
    with Poison(poison), np.errstate(all="ignore"):
        try:
            dyadic_pyramid.compute_dyadic_scales(pio, used)
            if case.get("rerun"):
                # the full-resolution scale is rewritten with other data and
                # the pyramid computed again in the same directory
                l0b = ((l0.astype(np.int64) + 37) % 200 + 1).astype(l0.dtype)
                for cc in pipeline.chunk_grid(sc0["size"],
                                              sc0["chunk_sizes"][0]):
                    pio.write_chunk(np.ascontiguousarray(
                        l0b[:, cc[4]:cc[5], cc[2]:cc[3], cc[0]:cc[1]]),
                        sc0["key"], cc)
                dyadic_pyramid.compute_dyadic_scales(pio, used)
        except Exception as e:
            exc = e
    pre = None
    if exc is None and case["storage"] == "sharded":
        # everything must be on disk when compute_dyadic_scales returns,
        # not only once the interpreter exits
        try:
            rd0 = pipeline.open_dataset(ds, opts)
            pre = [pipeline.read_scale(rd0, i)
                   for i in range(len(info["scales"]))]
        except Exception as e:
            sandbox.run_captured_exit_handlers()
            return info, None, Unreadable(
                "before the exit handlers ran: " + repr(e)[:160]), ds_obj
    sandbox.run_captured_exit_handlers()
    if exc is not None:
        return info, None, exc, ds_obj
    try:
        rd = pipeline.open_dataset(ds, opts)
        levels = [pipeline.read_scale(rd, i)
                  for i in range(len(info["scales"]))]
    except Exception as e:
        return info, None, Unreadable(repr(e)[:200]), ds_obj
    if pre is not None and any(
            a.tobytes() != b.tobytes() for a, b in zip(pre, levels)):
        return info, None, Unreadable(
            "levels read when compute_dyadic_scales returned differ from "
            "the levels read after the exit handlers"), ds_obj
    return info, levels, None, ds_obj


class Unreadable(Exception):
    """compute_dyadic_scales returned normally but a level cannot be read"""


def expected_next(ds_obj, prev, old, new, alt=False):
    f = []
    for a in range(3):
        if old["size"][a] == new["size"][a]:
            fa = 1
            if alt and old["size"][a] == 1 and \
                    new["resolution"][a] != old["resolution"][a]:
                fa = 2
        else:
            fa = 2
        f.append(fa)
    with np.errstate(all="ignore"):
        return ds_obj.downscale(prev, tuple(f))


def _eval(col, case):
    d = sandbox.fresh_dir("c06")
    try:
        _eval_in(col, case, d)
    finally:
        sandbox.drop_captured_exit_handlers()
        sandbox.rm(d)


def _eval_in(col, case, d):
    try:
        info, lv_a, exc_a, ds_obj = build_and_run(case, d, 251)
    except Exception as exc:
        # failures before compute_dyadic_scales (generator assertion, writer)
        # are C08 / C03 business
        col.ev(1, 0, "setup-failed/" + type(exc).__name__)
        return
    scales = info["scales"]
    nontriv = 0
    outside = None
    for k in range(len(scales) - 1):
        why = envelope_ok(scales[k], scales[k + 1])
        if why and outside is None:
            outside = (k, why)
        oc, nc = scales[k]["chunk_sizes"][0], scales[k + 1]["chunk_sizes"][0]
        for a in range(3):
            f = 1 if scales[k]["size"][a] == scales[k + 1]["size"][a] else 2
            if oc[a] // f and nc[a] // max(1, oc[a] // f) >= 2 \
                    and scales[k + 1]["size"][a] > oc[a] // f:
                nontriv = 1
    if len(scales) < 2:
        nontriv = 0
    if isinstance(exc_a, Unreadable):
        col.ev(1, nontriv, "bad")
        col.violation("C06/compute/returned-normally-but-a-level-is-not-"
                      "readable/" + ("inside-envelope" if outside is None
                                     else "outside-envelope"), case,
                      "every level written, or an error", str(exc_a))
        return
    if exc_a is not None:
        if outside is not None:
            col.ev(1, nontriv, "refused-outside-envelope")
        else:
            col.ev(1, nontriv, "exception-inside-envelope")
            col.violation("C06/compute/exception-on-supported-scales/"
                          + type(exc_a).__name__, case, "pyramid computed",
                          repr(exc_a)[:300])
        return
    info, lv_b, exc_b, _ = build_and_run(case, d, 253)
    if exc_b is not None:
        col.ev(1, nontriv, "nondeterministic-exception")
        col.violation("C06/compute/exception-only-with-other-poison", case,
                      "same outcome", repr(exc_b)[:200])
        return
    ok = True
    for k in range(1, len(scales)):
        a, b = lv_a[k], lv_b[k]
        c2 = dict(case, scale=k)
        if a.shape != b.shape or a.tobytes() != b.tobytes():
            ok = False
            n = int(np.count_nonzero(a != b)) if a.shape == b.shape else -1
            col.violation("C06/level/voxels-left-unwritten", c2,
                          "identical result whatever np.empty contains",
                          "%d voxels depend on the uninitialised buffer" % n)
            continue
        want = expected_next(ds_obj, lv_a[k - 1], scales[k - 1], scales[k])
        want2 = expected_next(ds_obj, lv_a[k - 1], scales[k - 1], scales[k],
                              alt=True)
        if not ((a.shape == want.shape and np.array_equal(a, want))
                or (a.shape == want2.shape and np.array_equal(a, want2))):
            ok = False
            if a.shape == want.shape:
                bad = np.argwhere(a != want)
                obs = "(c,z,y,x)=%s: got %r, expected %r (%d voxels)" % (
                    bad[0].tolist(), a[tuple(bad[0])], want[tuple(bad[0])],
                    len(bad))
            else:
                obs = "shape %r vs %r" % (a.shape, want.shape)
            tag = "inside-envelope" if outside is None else \
                "outside-envelope-but-no-error"
            col.violation("C06/level/differs-from-whole-level-downscale/"
                          + tag, c2, "downscale(previous level)", obs)
    col.ev(1, nontriv, "ok" if ok else "bad")


def geometry_cases(tier):
    out = []
    n = 0
    stride = 12 if tier == "quick" else 2
    for size in SIZES:
        for res in RES:
            for target in TARGETS:
                n += 1
                if (n + SIZES.index(size)) % stride:
                    continue
                for method, outside in (METHODS[0], METHODS[2]):
                    out.append({"kind": "geometry", "size": list(size),
                                "resolution": list(res), "target": target,
                                "method": method, "outside": outside,
                                "dtype": "uint8", "channels": 1,
                                "encoding": "raw", "storage": "deep"})
    # axes longer than 256 / 65536 voxels, also ones that keep their size
    # between two scales (coarser voxels along them)
    for size, res, target in LONG:
        for method, outside in (METHODS[0], METHODS[2]):
            out.append({"kind": "geometry", "size": list(size),
                        "resolution": list(res), "target": target,
                        "method": method, "outside": outside,
                        "dtype": "uint8", "channels": 1,
                        "encoding": "raw", "storage": "flat"})
    return out


GEOMS = [((9, 9, 9), (1, 1, 1), 4), ((17, 5, 3), (1, 1, 1), 2),
         ((5, 9, 17), (1, 2, 4), 4), ((17, 9, 2), (1, 1, 4), 4),
         ((33, 2, 1), (1, 1, 1), 8), ((9, 9, 5), (2, 1, 1), 2),
         ((3, 3, 3), (1, 1, 1), 2), ((17, 17, 2), (1, 1, 8), 4),
         ((9, 5, 9), (1, 3, 1), 4), ((1, 5, 33), (4, 1, 1), 4),
         ((5, 5, 5), (1, 1, 1), 8), ((17, 3, 9), (1.5, 1, 1), 4)]


def method_cases(tier):
    out = []
    for gi, (size, res, target) in enumerate(GEOMS):
        for method, outside in METHODS:
            for dtype in ("uint8", "uint16", "uint32", "uint64", "float32"):
                for nch in (1, 2):
                    storages = ["deep", "flat"]
                    if dtype in ("uint32", "uint64"):
                        storages.append("cseg")
                    if len(set(res)) == 1:
                        storages.append("sharded")
                    for st in storages:
                        if tier == "quick" and (gi + len(out)) % 5:
                            # quick keeps every 5th combination per geometry
                            out.append(None)
                            continue
                        out.append({"kind": "method", "size": list(size),
                                    "resolution": list(res),
                                    "target": target, "method": method,
                                    "outside": outside, "dtype": dtype,
                                    "channels": nch,
                                    "encoding": "compressed_segmentation"
                                    if st == "cseg" else "raw",
                                    "storage": "deep" if st == "cseg"
                                    else st})
    out = [c for c in out if c is not None]
    # the pyramid computed a second time after scale 0 was rewritten
    for gi in (0, 2, 8):
        size, res, target = GEOMS[gi]
        for st in ("deep", "flat"):
            for method, outside in (METHODS[0], METHODS[2]):
                out.append({"kind": "method", "size": list(size),
                            "resolution": list(res), "target": target,
                            "method": method, "outside": outside,
                            "dtype": "uint8", "channels": 1,
                            "encoding": "raw", "storage": st,
                            "rerun": True})
    # method chosen by "auto" from the info type, with and without options
    for gi in (0, 2, 6):
        size, res, target = GEOMS[gi]
        for typ, method in (("image", "average"), ("segmentation", "stride")):
            for outside in (None, 0.0, 255.0):
                out.append({"kind": "method", "size": list(size),
                            "resolution": list(res), "target": target,
                            "method": method, "outside": outside,
                            "select": "auto", "info_type": typ,
                            "dtype": "uint8", "channels": 1,
                            "encoding": "raw", "storage": "deep"})
    # through the compute_scales console script: every method / outside
    # value, the method left to "auto" for both info types, three storages
    n = 0
    for gi in (0, 2, 6, 8):
        size, res, target = GEOMS[gi]
        sel = [(m, o, None, None) for m, o in METHODS] + [
            ("average", o, "auto", "image") for o in (None, 0.0, 255.0)] + [
            ("stride", o, "auto", "segmentation") for o in (None, 0.0)]
        for method, outside, select, typ in sel:
            for st in ("deep", "flat", "sharded"):
                if st == "sharded" and len(set(res)) != 1:
                    continue
                n += 1
                if tier == "quick" and n % 3:
                    continue
                c = {"kind": "method", "size": list(size),
                     "resolution": list(res), "target": target,
                     "method": method, "outside": outside,
                     "dtype": "uint8" if n % 2 else "uint16", "channels": 1,
                     "encoding": "raw", "storage": st,
                     "via_cli": 1 + n % 2}
                if select:
                    c.update(select=select, info_type=typ)
                out.append(c)
    return out


def handmade_cases(tier):
    """two-scale descriptions written by hand: along one axis every
    combination of downscaling factor {1,2}, old chunk size {1,2,4} and new
    chunk size {1,2,3,4,8,16} for old sizes {16, 13}; the other axes are a
    single chunk. Pairs the pyramid code cannot process must be refused,
    the others computed correctly."""
    out = []
    for axis in range(3):
        for f in (1, 2):
            for oc in (1, 2, 4):
                for nc in (1, 2, 3, 4, 8, 16):
                    for osz in (16, 13):
                        for other_f in (1, 2):
                            if tier == "quick" and (osz == 13) != (
                                    other_f == 2):
                                continue
                            size0, ch0 = [4, 4, 4], [4, 4, 4]
                            size1 = [4 // other_f] * 3
                            ch1 = [4, 4, 4]
                            res0 = [1, 1, 1]
                            res1 = [other_f] * 3
                            size0[axis], ch0[axis] = osz, oc
                            size1[axis] = -(-osz // f)
                            ch1[axis] = nc
                            res1[axis] = f
                            out.append({
                                "kind": "handmade", "size": size0,
                                "resolution": res0, "target": 0,
                                "scales": [
                                    {"size": size0, "chunk": ch0,
                                     "resolution": res0},
                                    {"size": size1, "chunk": ch1,
                                     "resolution": res1}],
                                "method": "average", "outside": None,
                                "dtype": "uint8", "channels": 1,
                                "encoding": "raw", "storage": "flat"})
    # the same descriptions given to the compute_scales console script: a
    # refused pair must end with a non-zero exit status
    step = 5 if tier == "quick" else 2
    for i, c in enumerate(list(out)):
        if i % step == 0:
            out.append(dict(c, via_cli=1 + (i // step) % 2))
    return out


def units(tier):
    cs = geometry_cases(tier) + method_cases(tier) + handmade_cases(tier)
    per = 30
    return [{"cases": cs[i:i + per]} for i in range(0, len(cs), per)]


def space(tier):
    return {"sizes": len(SIZES), "resolution_triples": len(RES),
            "targets": len(TARGETS),
            "geometry_product": len(SIZES) * len(RES) * len(TARGETS),
            "geometry_cases_run": len(geometry_cases(tier)),
            "method_cases_run": len(method_cases(tier)),
            "handmade_cases_run": len(handmade_cases(tier))}


def run_unit(u):
    col = Collector()
    for case in u["cases"]:
        _eval(col, case)
    col.sample(u["cases"][0])
    return col.result()


def replay(case):
    col = Collector()
    c = dict(case)
    c.pop("scale", None)
    _eval(col, c)
    return col.records()
