"""C16 - generated metadata and transform place the image correctly in space.

E-INPUT: affines (all 48 signed axis permutations, rotations, shears) x
voxel sizes x translations x shapes x channel layouts x stored dtypes x
header scaling x sharding option strings, through volume_file_to_info
(info_fullres.json, transform.json) and matrix_as_compact_urlsafe_json.
Oracle: the centre/corner identity on corner voxels, computed from the
NIfTI affine with float64 and compared within 1e-9 relative.
"""
import itertools
import json
import os

import numpy as np

from mc import pipeline
from mc.env import sandbox
from mc.runner import Collector

ID = "C16"
LEVEL = "exploration"
REQUIRED_CLASSES = ["geometry-ok", "layout-ok", "sharding-ok",
                    "sharding-refused"]
RULE = ("geometry: (48 signed permutations + 2 rotations + shear + "
        "rotation*shear) x voxel sizes x translations x shapes (quick: 2x2 "
        "x1; thorough: 4x3x3); layout: 3-D / 4-D(2) / 4-D(3) / RGB x stored "
        "dtypes {u8,i8,i16,u16,i32,u32,u64,f32,f64} x header scaling {none, "
        "(2,1), (1,-1024), (1,0.5), (0.5,0)} x ignore_scaling x input_max "
        "on 3 affines; headers whose qform/pixdim differ from the sform; qform-only headers (sform_code 0 with stale srow fields); a second run for another volume into the same directory (fails leaving the pair untouched, or writes a consistent pair); sharding strings (through the library function and through the console script) {None, '1,1,0', '0,0,0', '2,3,1', "
        "malformed...} x gzip. Checks: info size/channels/resolution/"
        "data_type, imperfect-type status, files == return values, "
        "T*((i+0.5)*res) == 1e6*A*i on the 27 voxels {0,1,n-1}^3, compact "
        "URL form parses back to the same matrix, a second call on the same "
        "image object gives the same result and leaves the image unchanged. Non-trivial: the affine "
        "is not diagonal-positive or the voxel size is anisotropic.")
ASSUMPTIONS = [
    "NIfTI affines map voxel indices to millimetres at voxel centres; "
    "Neuroglancer coordinates are voxel corners in nanometres",
    "data_type expectation: the type nibabel yields after the header "
    "scaling (float64 whenever slope/intercept are in effect) if it is a "
    "Neuroglancer type, else float32 together with the imperfect-type "
    "status",
]
HOW_TO_READ = ("case: NIfTI file with the given affine/shape/dtype/scaling; "
               "volume_file_to_info(file, dir, ignore_scaling, input_min, "
               "input_max, options)")

NG_TYPES = ("uint8", "uint16", "uint32", "uint64", "float32")


def signed_perms():
    out = []
    for perm in itertools.permutations(range(3)):
        for signs in itertools.product((1, -1), repeat=3):
            m = np.zeros((3, 3))
            for r in range(3):
                m[r, perm[r]] = signs[r]
            out.append(m)
    return out


def _rot(axis, deg):
    c, s = np.cos(np.radians(deg)), np.sin(np.radians(deg))
    m = np.eye(3)
    a, b = [(1, 2), (0, 2), (0, 1)][axis]
    m[a, a], m[a, b], m[b, a], m[b, b] = c, -s, s, c
    return m


def direction_matrices(tier):
    mats = [("perm%d" % i, m) for i, m in enumerate(signed_perms())]
    sh = np.eye(3)
    sh[0, 1] = 0.3
    mats += [("rotz30", _rot(2, 30)), ("rotx45z30", _rot(0, 45) @ _rot(2, 30)),
             ("shear", sh), ("rot-shear", _rot(1, 20) @ sh),
             ("cyclic-rot", _rot(2, 90) @ _rot(0, 90))]
    return mats


def make_affine(direction, voxel, trans):
    a = np.eye(4)
    a[:3, :3] = direction @ np.diag(voxel)
    a[:3, 3] = trans
    return a


def expected_dtype(stored, scaling, ignore_scaling, input_max):
    if input_max is not None:
        eff = "float64"
    elif ignore_scaling or scaling is None or scaling == (1.0, 0.0):
        eff = stored
    else:
        eff = "float64"
    if eff in NG_TYPES:
        return eff, False
    return "float32", True


def build_array(shape, layout, dtype):
    if layout == "rgb":
        arr = np.zeros(shape, dtype=[("R", "u1"), ("G", "u1"), ("B", "u1")])
        n = int(np.prod(shape))
        arr["R"] = (np.arange(n) % 250).reshape(shape)
        arr["G"] = 7
        arr["B"] = 200
        return arr
    full = tuple(shape) + ({"3d": (), "4d2": (2,), "4d3": (3,)}[layout])
    n = int(np.prod(full))
    return (np.arange(n) % 120 + 1).reshape(full).astype(dtype)


def _eval(col, case):
    d = sandbox.fresh_dir("c16")
    try:
        return _eval_in(col, case, d)
    finally:
        sandbox.rm(d)


def _eval_in(col, case, d):
    from neuroglancer_scripts import transform as tr
    from neuroglancer_scripts import volume_reader
    import nibabel
    A = np.array(case["affine"], dtype=float)
    shape = tuple(case["shape"])
    arr = build_array(shape, case["layout"], case["dtype"])
    sc = tuple(case["scaling"]) if case["scaling"] else None
    path = os.path.join(d, "v.nii")
    img = nibabel.Nifti1Image(arr, A, dtype=arr.dtype)
    img.header.set_data_dtype(arr.dtype)
    if sc is not None:
        img.header.set_slope_inter(*sc)
    if case.get("qform_differs"):
        # a registered image: the sform (which readers prefer) carries
        # another scale than the scanner geometry kept in qform / pixdim
        Aq = np.eye(4)
        Aq[:3, :3] = np.diag([1.0, 1.0, 1.0])
        Aq[:3, 3] = [1, 2, 3]
        img.header.set_qform(Aq, code=1)
        img.header.set_sform(A, code=4)
        img = nibabel.Nifti1Image(arr, None, img.header)
    if case.get("qform_only"):
        # orientation stored in the qform only (sform_code 0, as some
        # scanner-side converters write); the srow fields hold stale values
        stale = np.diag([2.0, 2.0, 2.0, 1.0])
        img.header.set_qform(A, code=1)
        img.header.set_sform(stale, code=0)
        img = nibabel.Nifti1Image(arr, None, img.header)
    if case.get("big_endian"):
        img = nibabel.Nifti1Image(np.asarray(img.dataobj), None,
                                  img.header.as_byteswapped(">"))
        if sc is not None:
            img.header.set_slope_inter(*sc)
    nibabel.save(img, path)
    if case.get("big_endian"):
        with open(path, "rb") as f:
            assert f.read(4) == b"\x00\x00\x01\x5c", "not big-endian"
    # the reference is the affine the FILE states (NIfTI stores it in
    # float32), not the float64 matrix it was built from
    A = np.array(nibabel.load(path).affine, dtype=float)
    dest = os.path.join(d, "out")
    opts = {}
    if case.get("sharding") is not None:
        opts["sharding"] = case["sharding"]
        opts["gzip"] = case.get("gzip", True)
    kind = case["kind"]
    nontriv = 1 if case.get("nontrivial") else 0
    bad_sharding = case.get("sharding_malformed", False)
    try:
        if case.get("via_cli"):
            # through the console script (argument parsing included)
            argv = ["--generate-info", path, dest]
            if case.get("sharding") is not None:
                argv += ["--sharding", case["sharding"]]
                if not case.get("gzip", True):
                    argv += ["--no-gzip"]
            if case["ignore_scaling"]:
                argv += ["--ignore-scaling"]
            if case["input_max"] is not None:
                argv += ["--input-max", repr(case["input_max"])]
            r = sandbox.run_cli("volume_to_precomputed", argv)
            if r.exc is not None:
                raise r.exc
            status = r.status
            if bad_sharding and status not in (0, 4):
                col.ev(1, 1, "sharding-refused")
                return
        else:
            with sandbox.quiet():
                status = volume_reader.volume_file_to_info(
                    path, dest, ignore_scaling=case["ignore_scaling"],
                    input_min=None, input_max=case["input_max"],
                    options=opts)
    except Exception as exc:
        if bad_sharding:
            col.ev(1, 1, "sharding-refused")
            return
        col.ev(1, nontriv, kind + "-exception")
        col.violation("C16/exception/" + type(exc).__name__, case,
                      "info and transform", repr(exc)[:200])
        return
    finally:
        sandbox.drop_captured_exit_handlers()
    if bad_sharding:
        col.ev(1, 1, "sharding-accepted-malformed")
        col.violation("C16/sharding/malformed-option-accepted", case,
                      "an error", "status %r" % (status,))
        return
    ok = True

    def bad(sig, exp, obs):
        nonlocal ok
        ok = False
        col.violation("C16/" + sig, case, exp, obs)

    try:
        with open(os.path.join(dest, "info_fullres.json")) as f:
            info = json.load(f)
        with open(os.path.join(dest, "transform.json")) as f:
            T = np.array(json.load(f), dtype=float)
    except Exception as exc:
        col.ev(1, nontriv, kind + "-bad")
        col.violation("C16/files/unreadable/" + type(exc).__name__, case,
                      "info_fullres.json and transform.json",
                      repr(exc)[:200])
        return
    want_dt, imperfect = expected_dtype(
        "uint8" if case["layout"] == "rgb" else case["dtype"], sc,
        case["ignore_scaling"], case["input_max"])
    scale = info["scales"][0]
    if list(scale["size"]) != list(shape):
        bad("info/size", list(shape), scale["size"])
    want_ch = {"3d": 1, "4d2": 2, "4d3": 3, "rgb": 3}[case["layout"]]
    if info.get("num_channels") != want_ch:
        bad("info/num_channels", want_ch, info.get("num_channels"))
    if info.get("data_type") != want_dt:
        bad("info/data_type", want_dt, info.get("data_type"))
    want_status = 4 if imperfect else 0
    if (status or 0) != want_status:
        bad("status/imperfect-type-flag", want_status, status)
    vox = np.sqrt(np.sum(A[:3, :3] ** 2, axis=0))
    res = np.array(scale["resolution"], dtype=float)
    if res.shape != (3,) or np.any(np.abs(res - vox * 1e6)
                                   > 1e-9 * vox * 1e6):
        bad("info/resolution", (vox * 1e6).tolist(), scale["resolution"])
    if scale.get("voxel_offset") != [0, 0, 0]:
        bad("info/voxel_offset", [0, 0, 0], scale.get("voxel_offset"))
    if case.get("sharding") is not None:
        mb, sb, pb = [int(x) for x in case["sharding"].split(",")]
        enc = "gzip" if case.get("gzip", True) else "raw"
        want = {"@type": "neuroglancer_uint64_sharded_v1",
                "minishard_bits": mb, "shard_bits": sb, "hash": "identity",
                "minishard_index_encoding": enc, "data_encoding": enc,
                "preshift_bits": pb}
        if scale.get("sharding") != want:
            bad("info/sharding-block", want, scale.get("sharding"))
    elif "sharding" in scale:
        bad("info/unrequested-sharding-block", "absent", scale["sharding"])
    # centre / corner identity on corner voxels
    if T.shape != (4, 4) or not np.array_equal(T[3], [0, 0, 0, 1]):
        bad("transform/not-affine-4x4", "4x4 with last row 0 0 0 1",
            T.tolist())
    elif res.shape == (3,):
        worst = 0.0
        worst_i = None
        scale_nm = max(1.0, float(np.max(np.abs(A[:3, :])) * 1e6))
        for i in itertools.product(*[sorted({0, 1, n - 1}) for n in shape]):
            i = np.array(i, dtype=float)
            corner = T @ np.append((i + 0.5) * res, 1.0)
            centre = 1e6 * (A @ np.append(i, 1.0))
            err = float(np.max(np.abs(corner[:3] - centre[:3])))
            if err > worst:
                worst, worst_i = err, i.tolist()
        span = scale_nm * (1 + max(shape))
        if worst > 1e-9 * span:
            bad("transform/voxel-centre-not-mapped-to-the-affine-position",
                "T((i+0.5)*res) == 1e6 * A i within 1e-9 relative",
                {"voxel": worst_i, "error_nm": worst})
    # the same image object used again must give the same answer, and the
    # generator must not modify the image it is given
    try:
        img2 = nibabel.load(path)
        a_before = np.array(img2.affine, copy=True)
        with sandbox.quiet():
            first = volume_reader.nibabel_image_to_info(
                img2, ignore_scaling=case["ignore_scaling"],
                input_min=None, input_max=case["input_max"], options=opts)
            second = volume_reader.nibabel_image_to_info(
                img2, ignore_scaling=case["ignore_scaling"],
                input_min=None, input_max=case["input_max"], options=opts)
        if not np.array_equal(np.array(img2.affine), a_before):
            bad("image-object-modified/affine", a_before.tolist(),
                np.array(img2.affine).tolist())
        if (json.loads(first[0]) != json.loads(second[0])
                or not np.array_equal(np.array(first[1], dtype=float),
                                      np.array(second[1], dtype=float))):
            bad("second-call-on-the-same-image-differs",
                "identical info and transform", "different")
        if json.loads(first[0]) != info or not np.allclose(
                np.array(first[1], dtype=float), T, rtol=0, atol=0):
            bad("function-result-differs-from-the-written-files",
                "same info and transform as the files", "different")
    except Exception as exc:
        bad("repeat/exception/" + type(exc).__name__, "info",
            repr(exc)[:200])
    # compact URL form
    try:
        txt = tr.matrix_as_compact_urlsafe_json(T.tolist())
        back = np.array(json.loads(txt.replace("_", ",")), dtype=float)
        if back.shape != T.shape or not np.array_equal(back, T):
            bad("compact-url-form/parses-to-another-matrix", T.tolist(),
                back.tolist())
        if any(ch in txt for ch in ", \n"):
            bad("compact-url-form/not-url-safe", "no commas or spaces", txt)
    except Exception as exc:
        bad("compact-url-form/exception/" + type(exc).__name__, "a string",
            repr(exc)[:200])
    if case.get("second_run"):
        # the destination now holds info + transform of this volume; the
        # same command is run for ANOTHER volume into the same directory:
        # it either fails and leaves the pair untouched, or succeeds and
        # writes a pair that describes the other volume
        def snap():
            return {n: open(os.path.join(dest, n), "rb").read()
                    for n in ("info_fullres.json", "transform.json")}
        before = snap()
        B = make_affine(np.array([[0, 1, 0], [0, 0, -1], [1, 0, 0]], float),
                        (0.25, 4, 1.5), (-3, 8, 0.5))
        arr2 = build_array((2, 5, 3), "3d", "uint16")
        path2 = os.path.join(d, "w.nii")
        img2 = nibabel.Nifti1Image(arr2, B, dtype=arr2.dtype)
        img2.header.set_data_dtype(arr2.dtype)
        nibabel.save(img2, path2)
        fresh = os.path.join(d, "fresh")
        try:
            with sandbox.quiet():
                st_fresh = volume_reader.volume_file_to_info(
                    path2, fresh, ignore_scaling=False, input_min=None,
                    input_max=None, options={})
                try:
                    st2 = volume_reader.volume_file_to_info(
                        path2, dest, ignore_scaling=False, input_min=None,
                        input_max=None, options={})
                    failed = bool(st2) and st2 != st_fresh
                except Exception:
                    failed = True
            after = snap()
            want = {n: open(os.path.join(fresh, n), "rb").read()
                    for n in ("info_fullres.json", "transform.json")}
            if failed:
                if after != before:
                    bad("second-run/failed-but-changed-the-existing-files",
                        "info and transform of the first volume untouched",
                        sorted(n for n in after if after[n] != before[n]))
            else:
                wrong = sorted(n for n in after if json.loads(after[n])
                               != json.loads(want[n]))
                if wrong:
                    bad("second-run/succeeded-but-files-do-not-describe-"
                        "the-new-volume", "info and transform of the "
                        "second volume", wrong)
        except Exception as exc:
            bad("second-run/exception/" + type(exc).__name__, "outcome",
                repr(exc)[:200])
        finally:
            sandbox.drop_captured_exit_handlers()
    col.ev(1, nontriv, kind + ("-ok" if ok else "-bad"))


def cases(tier):
    out = []
    mats = direction_matrices(tier)
    if tier == "quick":
        voxels = [(1, 1, 1), (0.5, 2, 3), (0.001, 0.001, 0.005)]
        transl = [(0, 0, 0), (10, -20, 5.5)]
        shapes = [(3, 4, 5)]
    else:
        voxels = [(1, 1, 1), (0.5, 2, 3), (0.02, 0.02, 0.02), (1, 1, 2.5),
                  (0.001, 0.001, 0.005), (4e-6, 4e-6, 4e-5), (250, 250, 1)]
        transl = [(0, 0, 0), (10, -20, 5.5), (-0.01, 0, 1e3)]
        shapes = [(3, 4, 5), (1, 1, 1), (7, 2, 1)]
    for name, m in mats:
        for v in voxels:
            for t in transl:
                for sh in shapes:
                    diagpos = name == "perm0"
                    out.append({
                        "kind": "geometry", "direction": name,
                        "affine": make_affine(m, v, t).tolist(),
                        "shape": list(sh), "layout": "3d", "dtype": "uint8",
                        "scaling": None, "ignore_scaling": False,
                        "input_max": None,
                        "nontrivial": (not diagpos) or len(set(v)) > 1})
    for name, m in (mats[0], mats[9], mats[49], mats[51]):
        for v in ((1.1, 0.9, 1.25), (2, 2, 2)):
            out.append({
                "kind": "geometry", "direction": name,
                "affine": make_affine(m, v, (5, -7, 11)).tolist(),
                "shape": [3, 4, 5], "layout": "3d", "dtype": "uint8",
                "scaling": None, "ignore_scaling": False, "input_max": None,
                "qform_differs": True, "nontrivial": True})
    three = [mats[0], mats[17], mats[49]]
    scalings = [None, (2.0, 1.0), (1.0, -1024.0), (1.0, 0.5), (0.5, 0.0),
                (1.0, 0.0)]
    for name, m in three:
        A = make_affine(m, (0.5, 2, 3), (10, -20, 5.5)).tolist()
        for layout in ("3d", "4d2", "4d3", "rgb"):
            dts = ["uint8"] if layout == "rgb" else [
                "uint8", "int8", "int16", "uint16", "int32", "uint32",
                "uint64", "float32", "float64"]
            for dt in dts:
                for sc in (scalings if layout != "rgb" else [None]):
                    for ign in (False, True):
                        for imax in (None, 200.0):
                            if imax is not None and (ign or sc not in (
                                    None, (2.0, 1.0))):
                                continue
                            if tier == "quick" and name != three[1][0] \
                                    and dt not in ("uint8", "uint16",
                                                   "int16"):
                                continue
                            out.append({
                                "kind": "layout", "direction": name,
                                "affine": A, "shape": [3, 4, 2],
                                "layout": layout, "dtype": dt,
                                "scaling": list(sc) if sc else None,
                                "ignore_scaling": ign, "input_max": imax,
                                "nontrivial": True})
    A = make_affine(mats[5][1], (1, 1, 1), (0, 0, 0)).tolist()
    for s in ("1,1,0", "0,0,0", "2,3,1", "10,20,30"):
        for gz in (True, False):
            out.append({"kind": "sharding", "affine": A, "shape": [4, 4, 4],
                        "layout": "3d", "dtype": "uint8", "scaling": None,
                        "ignore_scaling": False, "input_max": None,
                        "sharding": s, "gzip": gz, "nontrivial": True})
    # qform-only headers (rigid directions only: a qform has no shear)
    for name, m in mats[:48:5]:
        out.append({
            "kind": "geometry", "direction": name,
            "affine": make_affine(m, (0.5, 0.8, 1.25), (5, -7, 11)).tolist(),
            "shape": [3, 4, 5], "layout": "3d", "dtype": "uint8",
            "scaling": None, "ignore_scaling": False, "input_max": None,
            "qform_only": True, "nontrivial": True})
    # a second run for another volume into the same directory
    for name, m in (mats[0], mats[9], mats[17]):
        out.append({
            "kind": "geometry", "direction": name,
            "affine": make_affine(m, (0.5, 2, 3), (10, -20, 5.5)).tolist(),
            "shape": [3, 4, 5], "layout": "3d", "dtype": "uint8",
            "scaling": None, "ignore_scaling": False, "input_max": None,
            "second_run": True, "nontrivial": True})
    # option combinations: colour / multi-channel layouts with sharding,
    # and with value-mapping limits 0 and negative
    for layout in ("rgb", "4d2", "4d3"):
        for s in ("1,1,0", "2,3,1"):
            out.append({"kind": "sharding", "affine": A, "shape": [4, 4, 4],
                        "layout": layout, "dtype": "uint8", "scaling": None,
                        "ignore_scaling": False, "input_max": None,
                        "sharding": s, "gzip": True, "nontrivial": True})
        for imax in (0.0, -1.0, 1e-9):
            for shard in (None, "1,1,0"):
                c = {"kind": "layout", "direction": "perm0", "affine": A,
                     "shape": [3, 4, 2], "layout": layout, "dtype": "uint8",
                     "scaling": None, "ignore_scaling": False,
                     "input_max": imax, "nontrivial": True}
                if shard:
                    c["sharding"] = shard
                    c["gzip"] = True
                out.append(c)
    for s in ("1,1", "a,b,c", "1,1,0,0", "-1,1,0", "1;1;0"):
        out.append({"kind": "sharding", "affine": A, "shape": [4, 4, 4],
                    "layout": "3d", "dtype": "uint8", "scaling": None,
                    "ignore_scaling": False, "input_max": None,
                    "sharding": s, "gzip": True, "sharding_malformed": True,
                    "nontrivial": True})
    # the same sharding / option cases through the console script
    for c in list(out):
        if c["kind"] == "sharding" or (c["kind"] == "layout" and (
                c.get("input_max") in (0.0, -1.0, 1e-9)
                or (c["dtype"] == "uint8" and c["direction"] == three[1][0]
                    and c["scaling"] in (None, [2.0, 1.0])))):
            c2 = dict(c)
            c2["via_cli"] = True
            out.append(c2)
    # files stored in the other byte order (big-endian NIfTI, as written on
    # or for other machines): every stored type x scaling x options on one
    # direction, every third case elsewhere
    n = 0
    for c in list(out):
        if c["kind"] != "layout" or c["layout"] == "rgb" \
                or c.get("via_cli"):
            continue
        n += 1
        if c["direction"] == three[1][0] or n % 3 == 0:
            out.append(dict(c, big_endian=True))
    return out


def units(tier):
    cs = cases(tier)
    per = 40
    return [{"cases": cs[i:i + per]} for i in range(0, len(cs), per)]


def space(tier):
    cs = cases(tier)
    return {"cases": len(cs),
            "by_kind": {k: sum(1 for c in cs if c["kind"] == k)
                        for k in ("geometry", "layout", "sharding")},
            "direction_matrices": len(direction_matrices(tier))}


def run_unit(u):
    col = Collector()
    for case in u["cases"]:
        _eval(col, case)
    c = dict(u["cases"][0])
    col.sample(c)
    return col.result()


def replay(case):
    col = Collector()
    _eval(col, case)
    return col.records()
