"""Binding the simulated environments to the real ones (DESIGN section 6).

iosim <-> kernel: a deviation explored under the in-process seam is replayed
in a subprocess that uses the stock open()/os functions, with the same fault
injected by strace at the corresponding system call
(`strace -f -P <path> -e inject=<call>:error=<E>:when=<k>` or
`:signal=SIGKILL`); the exception class / death and the resulting directory
tree must equal what the seam produced. A mismatch is a harness error.
"""
import errno
import json
import os
import subprocess
import sys

VERIF = os.path.dirname(os.path.dirname(os.path.abspath(__file__)))
_STRACE = None

SYSCALLS = {"write": "write", "open-w": "openat,open", "open-r":
            "openat,open", "mkdir": "mkdir,mkdirat", "unlink":
            "unlink,unlinkat"}


def strace_available():
    global _STRACE
    if _STRACE is None:
        try:
            p = subprocess.run(
                ["strace", "-f", "-o", os.devnull, "-e", "trace=write",
                 "-e", "inject=write:error=ENOSPC:when=60000", "true"],
                capture_output=True, text=True, timeout=30)
            _STRACE = (p.returncode == 0,
                       (p.stderr or "").strip()[:200] or "ok")
        except Exception as exc:
            _STRACE = (False, repr(exc)[:200])
    return _STRACE


def expressible(points, k, dev):
    """can this deviation be injected with strace?"""
    name = points[k][0]
    if name not in SYSCALLS:
        return False
    return dev[0] in ("errno", "kill-before")


def strace_args(root, points, k, dev):
    name, rel = points[k]
    same = [p for p in points[:k]
            if p[1] == rel and SYSCALLS.get(p[0]) == SYSCALLS[name]]
    when = len(same) + 1
    calls = SYSCALLS[name]
    if dev[0] == "errno":
        what = "error=" + errno.errorcode[dev[1]]
    else:
        what = "signal=SIGKILL"
    return ["strace", "-f", "-qq", "-o", os.devnull, "-P",
            os.path.join(root, rel), "-e", "trace=" + calls, "-e",
            "inject=%s:%s:when=%d" % (calls, what, when)]


def run_c18_op(d, scn, scratch, prefix):
    spec = {"kind": "c18-op", "verif": VERIF, "dir": d, "scn": scn,
            "scratch": scratch}
    env = dict(os.environ)
    env["TMPDIR"] = scratch
    env["TQDM_DISABLE"] = "1"
    p = subprocess.run(prefix + [sys.executable, os.path.join(
        VERIF, "mc", "conf_child.py"), json.dumps(spec)],
        capture_output=True, text=True, timeout=120, env=env, cwd=VERIF)
    for line in p.stdout.splitlines():
        if line.startswith("CONF-RESULT "):
            return json.loads(line[len("CONF-RESULT "):])
    if p.returncode in (137, -9):
        return {"outcome": "killed"}
    return {"outcome": "unknown", "rc": p.returncode,
            "stderr": p.stderr[-400:]}


# ---- kernel-level enumeration (C18 family "kernel") -------------------------
KCLASS = {"read": "read,pread64,readv,preadv",
          "write": "write,pwrite64,writev,pwritev"}
_KLINE = None


def kernel_calls(d, scn, scratch):
    """Fault-free run of the operation in a child under strace: the read- and
    write-class system calls it issues on files below d, whoever issues them
    (Python's io, a C extension, numpy's fromfile/tofile). Returns (list of
    (class, relative path) in call order, child result)."""
    import re
    global _KLINE
    if _KLINE is None:
        _KLINE = re.compile(r"^\d+\s+(\w+)\((\d+)<([^>]*)>")
    log = os.path.join(scratch, "klist-%d.log" % os.getpid())
    res = run_c18_op(d, scn, scratch, [
        "strace", "-f", "-y", "-qq", "-o", log, "-e",
        "trace=" + KCLASS["read"] + "," + KCLASS["write"]])
    calls = []
    root = os.path.realpath(d) + os.sep
    which = {}
    for cls, names in KCLASS.items():
        for nm in names.split(","):
            which[nm] = cls
    try:
        with open(log, errors="replace") as f:
            for line in f:
                m = _KLINE.match(line)
                if not m or m.group(1) not in which:
                    continue
                path = os.path.realpath(m.group(3))
                if path.startswith(root):
                    calls.append((which[m.group(1)], path[len(root):]))
    finally:
        try:
            os.unlink(log)
        except OSError:
            pass
    return calls, res


def kernel_inject(d, scn, scratch, cls, rel, when, what):
    """the operation in a child with the when-th call of class cls on the
    file rel answered by `what` ("error=EIO", "signal=SIGKILL", ...);
    returns (child result, whether strace reports the injection)"""
    log = os.path.join(scratch, "kinj-%d.log" % os.getpid())
    res = run_c18_op(d, scn, scratch, [
        "strace", "-f", "-qq", "-o", log, "-P", os.path.join(d, rel),
        "-e", "trace=" + KCLASS[cls], "-e",
        "inject=%s:%s:when=%d" % (KCLASS[cls], what, when)])
    injected = False
    try:
        with open(log, errors="replace") as f:
            txt = f.read()
        injected = "(INJECTED)" in txt or "SIGKILL" in txt
    except OSError:
        pass
    finally:
        try:
            os.unlink(log)
        except OSError:
            pass
    return res, injected
