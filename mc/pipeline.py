"""Helpers shared by the pipeline-level properties (C01 C06 C13 C15 C19 C20):
synthetic inputs, reading a whole scale back, listing chunk files."""
import json
import os
import re

import numpy as np


def chunk_grid(size, chunk_size):
    """all chunk coordinate 6-tuples of a scale, x fastest"""
    out = []
    for z in range(0, size[2], chunk_size[2]):
        for y in range(0, size[1], chunk_size[1]):
            for x in range(0, size[0], chunk_size[0]):
                out.append((x, min(x + chunk_size[0], size[0]),
                            y, min(y + chunk_size[1], size[1]),
                            z, min(z + chunk_size[2], size[2])))
    return out


def open_dataset(url, accessor_options=None, encoder_options=None):
    """fresh accessor + PrecomputedIO on an existing dataset"""
    from neuroglancer_scripts import accessor, precomputed_io
    acc = accessor.get_accessor_for_url(url, accessor_options or {})
    return precomputed_io.get_IO_for_existing_dataset(
        acc, encoder_options=encoder_options or {})


def read_scale(pio, scale_index):
    """(C,Z,Y,X) array of a whole scale read chunk by chunk through
    PrecomputedIO.read_chunk; checks each chunk's shape itself."""
    info = pio.info
    sc = info["scales"][scale_index]
    size, cs = sc["size"], sc["chunk_sizes"][0]
    out = None
    for cc in chunk_grid(size, cs):
        chunk = pio.read_chunk(sc["key"], cc)
        want = (info["num_channels"], cc[5] - cc[4], cc[3] - cc[2],
                cc[1] - cc[0])
        if tuple(chunk.shape) != want:
            raise AssertionError("chunk %r decoded with shape %r, expected "
                                 "%r" % (cc, chunk.shape, want))
        if out is None:
            out = np.zeros((info["num_channels"], size[2], size[1], size[0]),
                           dtype=chunk.dtype)
        out[:, cc[4]:cc[5], cc[2]:cc[3], cc[0]:cc[1]] = chunk
    return out


_FLAT = re.compile(r"^(\d+)-(\d+)_(\d+)-(\d+)_(\d+)-(\d+)(\.gz)?$")
_PART = re.compile(r"^(\d+)-(\d+)(\.gz)?$")


def list_chunk_files(scale_dir):
    """chunk coordinate tuples found as files under a scale directory, by the
    documented names only (docs/serving-data.rst): flat key/x-X_y-Y_z-Z[.gz]
    or deep key/x-X/y-Y/z-Z[.gz]. Returns (coords list, other files list)."""
    coords, other = [], []
    if not os.path.isdir(scale_dir):
        return coords, other
    for root, dirs, files in os.walk(scale_dir):
        rel = os.path.relpath(root, scale_dir)
        parts = [] if rel == "." else rel.split(os.sep)
        for f in files:
            m = _FLAT.match(f)
            if not parts and m:
                coords.append(tuple(int(g) for g in m.groups()[:6]))
                continue
            if len(parts) == 2:
                mx, my, mz = (_PART.match(parts[0]), _PART.match(parts[1]),
                              _PART.match(f))
                if mx and my and mz and not mx.group(3) and not my.group(3):
                    coords.append((int(mx.group(1)), int(mx.group(2)),
                                   int(my.group(1)), int(my.group(2)),
                                   int(mz.group(1)), int(mz.group(2))))
                    continue
            other.append(os.path.join(rel, f))
    return coords, other


def write_nifti(path, arr, affine=None, slope=None, inter=None):
    """arr is indexed (x,y,z[,c]); stored with its own dtype"""
    import nibabel
    if affine is None:
        affine = np.eye(4)
    img = nibabel.Nifti1Image(arr, np.asarray(affine, dtype=float),
                              dtype=arr.dtype)
    img.header.set_data_dtype(arr.dtype)
    if slope is not None:
        img.header.set_slope_inter(slope, inter or 0.0)
    nibabel.save(img, path)
    return path


def load_info(dirpath):
    p = os.path.join(dirpath, "info")
    with open(p) as f:
        return json.load(f)
