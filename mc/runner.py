"""Shared runner for all property checks (bounded exhaustive exploration).

A property module (mc/props/Cxx.py) provides

    ID            "C09"
    LEVEL         "exploration" | "model_checking" | "fault_enumeration"
    RULE          text: how cases are enumerated / what makes one non-trivial
    ASSUMPTIONS   list of strings
    units(tier)   -> list of JSON-serialisable work units (a partition of the
                     declared finite space, simplest first)
    run_unit(u)   -> dict with the keys of `empty_result()`; called in a worker
    replay(case)  -> list of violation records for exactly one case

A violation record is {"sig", "witness", "case", "expected", "observed"}.
The runner classifies every record against /verif/known_findings.json
(signature AND witness predicate), re-executes every unlisted one once through
`replay` (a violation that does not reproduce is a harness failure, exit 2),
writes replay files and the evidence file, prints the summary and exits
0 / 1 / 2 as the brief prescribes.
"""
import hashlib
import importlib
import json
import multiprocessing
import os
import shutil
import subprocess
import sys
import time
import traceback

VERIF = os.path.dirname(os.path.dirname(os.path.abspath(__file__)))
REPO = os.environ.get("NGS_REPO", "/repo")
# number of deterministic unit batches (one fresh process each)
BATCHES = int(os.environ.get("VERIF_BATCHES", "48"))
# address-space limit of every child process: a runaway allocation in the
# code under test becomes a MemoryError inside the case that caused it
# instead of an out-of-memory kill of some process
MEM_LIMIT = int(float(os.environ.get("VERIF_MEM_LIMIT_GB", "4")) * 2 ** 30)
ECHO = os.environ.get("VERIF_ECHO", "1") != "0"
MAX_RECORDS_PER_SIG = 25      # full records kept per signature per unit


def empty_result():
    return {
        "evaluations": 0,        # cases executed against the real code
        "nontrivial": 0,         # distinct non-trivial cases (module's rule)
        "classes": {},           # outcome class -> count
        "violations": [],        # violation records (capped per signature)
        "violation_count": 0,    # all violations incl. the ones over the cap
        "states": 0, "transitions": 0, "traces": 0, "max_depth": 0,
        "samples": [],
        "extra": {},             # summed numerically into coverage
        "capped": False,
    }


class Collector:
    """Helper used by property modules inside run_unit()."""

    def __init__(self):
        self.r = empty_result()
        self._per_sig = {}
        self._known = []         # records matched by a known finding

    def ev(self, n=1, nontrivial=0, cls=None):
        self.r["evaluations"] += n
        self.r["nontrivial"] += nontrivial
        if cls is not None:
            self.r["classes"][cls] = self.r["classes"].get(cls, 0) + n

    def cls(self, cls, n=1):
        self.r["classes"][cls] = self.r["classes"].get(cls, 0) + n

    def extra(self, key, n=1):
        self.r["extra"][key] = self.r["extra"].get(key, 0) + n

    def sample(self, s):
        if len(self.r["samples"]) < 3:
            self.r["samples"].append(s)

    def violation(self, sig, case, expected=None, observed=None,
                  witness=None):
        self.r["violation_count"] += 1
        k = self._per_sig.get(sig, 0)
        self._per_sig[sig] = k + 1
        rec = {"sig": sig,
               "witness": witness if witness is not None else witness_id(case),
               "case": case, "expected": _short(expected),
               "observed": _short(observed)}
        if known_finding_for(rec) is not None:
            # known findings are only counted (per finding id)
            fid = known_finding_for(rec)
            self.r["extra"]["known:" + fid] = \
                self.r["extra"].get("known:" + fid, 0) + 1
            if len(self._known) < MAX_RECORDS_PER_SIG:
                self._known.append(rec)
            return
        if k < MAX_RECORDS_PER_SIG:
            self.r["violations"].append(rec)
        else:
            self.r["capped"] = True

    def result(self):
        return self.r

    def records(self):
        """all violation records incl. known findings (used by replay)"""
        return self.r["violations"] + self._known


def _short(x, limit=2000):
    if x is None:
        return None
    try:
        s = x if isinstance(x, str) else json.dumps(x, default=str)
    except Exception:
        s = repr(x)
    return s if len(s) <= limit else s[:limit] + "...<%d chars>" % len(s)


def witness_id(case):
    return json.dumps(case, sort_keys=True, default=str,
                      separators=(",", ":"))


# --------------------------------------------------------------------------
# known findings
_KF = None


def load_known_findings():
    global _KF
    if _KF is None:
        path = os.path.join(VERIF, "known_findings.json")
        try:
            with open(path) as f:
                _KF = json.load(f)
        except FileNotFoundError:
            _KF = {"findings": [], "fixed": []}
    return _KF


def _match(pred, case):
    """Declarative predicate over a case descriptor.

    pred is a dict; key "a.b" addresses case["a"]["b"]; value is either a
    scalar (equality), {"in": [...]}, {"ge": n}, {"le": n}, {"ne": v}.
    All keys must match.
    """
    for key, want in pred.items():
        cur = case
        for part in key.split("."):
            if isinstance(cur, dict) and part in cur:
                cur = cur[part]
            elif isinstance(cur, list) and part.isdigit() \
                    and int(part) < len(cur):
                cur = cur[int(part)]
            else:
                return False
        if isinstance(want, dict):
            if "in" in want and cur not in want["in"]:
                return False
            if "ne" in want and cur == want["ne"]:
                return False
            if "ge" in want and not cur >= want["ge"]:
                return False
            if "le" in want and not cur <= want["le"]:
                return False
        elif cur != want:
            return False
    return True


def known_finding_for(rec):
    for f in load_known_findings().get("findings", []):
        if f["signature"] != rec["sig"]:
            continue
        if "witnesses" in f:
            if rec["witness"] in f["witnesses"]:
                return f["id"]
            continue
        if _match(f.get("match", {}), rec["case"]):
            return f["id"]
    return None


# --------------------------------------------------------------------------
# worker side
_MOD = None
_SCRATCH = None


def scratch_root():
    return _SCRATCH


def _worker_init(modname, scratch):
    global _MOD, _SCRATCH
    import logging
    import resource
    if MEM_LIMIT > 0:
        try:
            resource.setrlimit(resource.RLIMIT_AS, (MEM_LIMIT, MEM_LIMIT))
        except (ValueError, OSError):
            pass
    import tempfile
    _SCRATCH = os.path.join(scratch, "w%d" % os.getpid())
    os.makedirs(_SCRATCH, exist_ok=True)
    os.environ["TMPDIR"] = _SCRATCH
    tempfile.tempdir = _SCRATCH
    logging.disable(logging.CRITICAL)
    _MOD = importlib.import_module(modname)
    import neuroglancer_scripts
    src = os.path.realpath(neuroglancer_scripts.__file__)
    want = os.path.realpath(os.path.join(REPO, "src"))
    if not src.startswith(want + os.sep):
        raise RuntimeError("code under test is %s, not under %s"
                           % (src, want))


class _Quiet:
    """Silence the library's prints (Shard.close, scale-stats, tqdm)."""

    def __enter__(self):
        self.o, self.e = sys.stdout, sys.stderr
        self.f = open(os.devnull, "w")
        sys.stdout = sys.stderr = self.f

    def __exit__(self, *a):
        sys.stdout, sys.stderr = self.o, self.e
        self.f.close()


def _worker_run(arg):
    idx, unit = arg
    t0 = time.time()
    try:
        with _Quiet():
            res = _MOD.run_unit(unit)
        res["wall"] = time.time() - t0
        for rec in res["violations"]:
            rec["unit"] = idx
        return idx, res, None
    except BaseException:
        return idx, None, traceback.format_exc()
    finally:
        # keep tmpfs usage bounded: wipe the worker's scratch after each unit
        if _SCRATCH and os.path.isdir(_SCRATCH):
            for name in os.listdir(_SCRATCH):
                p = os.path.join(_SCRATCH, name)
                if os.path.isdir(p) and not os.path.islink(p):
                    shutil.rmtree(p, ignore_errors=True)
                else:
                    try:
                        os.unlink(p)
                    except OSError:
                        pass


def _batch_run(items):
    """One batch = a fixed sequence of units executed in order by one fresh
    process (forked from the parent for this batch only), so that whatever
    state the code under test keeps between calls has a deterministic,
    replayable history: the batch prefix."""
    out = []
    done = []
    for it in items:
        idx, res, err = _worker_run(it)
        done.append(idx)
        if res is not None:
            for rec in res["violations"]:
                rec["batch_prefix"] = list(done)
        out.append((idx, res, err))
    if len(items) >= 2 and ECHO:
        # echo: the batch's first unit once more at the end of the batch,
        # i.e. after every other unit of the batch has run in this process.
        # Only its violations are kept (state leaking from later units back
        # into earlier configurations); its counts are not added again.
        idx, res, err = _worker_run(items[0])
        if res is not None:
            for rec in res["violations"]:
                rec["batch_prefix"] = list(done) + [idx]
                rec["echo"] = True
        out.append((idx, ("echo", res), err))
    return out


def _confirm_child(arg):
    """Re-execution of a violation in a fresh process: the case alone, its
    whole unit, or the batch prefix (sequence of units) that preceded it."""
    kind, payload, sig = arg
    with _Quiet():
        try:
            if kind == "case":
                if os.environ.get("VERIF_SELFTEST_BREAK_REPLAY"):
                    # self-test of the fallback below: pretend the module
                    # cannot replay this case
                    raise RuntimeError("replay unavailable (self-test)")
                recs = _MOD.replay(payload)
            else:
                recs = []
                for unit in payload:
                    recs = _MOD.run_unit(unit)["violations"]
                    # only the last unit of the sequence must show it
            return [r for r in recs if r["sig"] == sig][:1], None
        except BaseException:
            return [], traceback.format_exc()


def _child_main(conn, modname, scratch, fn, arg):
    try:
        _worker_init(modname, scratch)
        out = fn(arg)
    except BaseException:
        out = ("child-failed", traceback.format_exc())
    try:
        conn.send(out)
        conn.close()
    finally:
        sys.stdout.flush()
        os._exit(0)


def _run_children(ctx, modname, scratch, fn, args, jobs):
    """fn(arg) for every arg, each in its own freshly forked process, at
    most `jobs` at a time; yields (position, result). A child that dies
    without delivering a result (killed, crashed interpreter) is reported as
    ("child-died", exit code) instead of being waited for forever."""
    from multiprocessing.connection import wait
    pending = list(enumerate(args))[::-1]
    running = {}
    while pending or running:
        while pending and len(running) < max(1, jobs):
            pos, arg = pending.pop()
            rd, wr = ctx.Pipe(duplex=False)
            pr = ctx.Process(target=_child_main,
                             args=(wr, modname, scratch, fn, arg))
            pr.start()
            wr.close()
            running[rd] = (pos, pr)
        for rd in wait(list(running), timeout=5):
            pos, pr = running.pop(rd)
            try:
                out = rd.recv()
            except (EOFError, OSError):
                pr.join()
                out = ("child-died", pr.exitcode)
            rd.close()
            pr.join()
            yield pos, out


def _in_fresh_child(ctx, modname, scratch, arg):
    for _, out in _run_children(ctx, modname, scratch, _confirm_child,
                                [arg], 1):
        if isinstance(out, tuple) and out and out[0] in ("child-died",
                                                         "child-failed"):
            return [], "%s: %s" % out
        return out


def _preimport():
    """third-party libraries only (never the package under test), so that
    the per-batch children do not pay for their import"""
    for name in ("numpy", "nibabel", "PIL.Image", "requests", "skimage",
                 "_pyio"):
        try:
            importlib.import_module(name)
        except Exception:
            pass


# --------------------------------------------------------------------------
def repo_state():
    def git(*a):
        try:
            return subprocess.run(["git", "-C", REPO] + list(a),
                                  capture_output=True, text=True,
                                  timeout=30).stdout
        except Exception:
            return ""
    head = git("rev-parse", "HEAD").strip()
    diff = git("diff", "HEAD", "--", "src")
    return head, hashlib.sha256(diff.encode()).hexdigest()[:16], bool(diff)


def validate_evidence(path):
    schema = os.path.join(VERIF, "mc", "EVIDENCE.schema.json")
    code = (
        "import json,sys,jsonschema;"
        "jsonschema.Draft202012Validator(json.load(open(sys.argv[1])))"
        ".validate(json.load(open(sys.argv[2])))")
    for py in ("python3-vt", "/opt/veriftools/pyvenv/bin/python"):
        try:
            p = subprocess.run([py, "-c", code, schema, path],
                               capture_output=True, text=True, timeout=60)
        except FileNotFoundError:
            continue
        if p.returncode != 0:
            return False, p.stderr[-2000:]
        return True, ""
    return True, "jsonschema unavailable; not validated"


def make_scratch():
    base = "/dev/shm" if os.path.isdir("/dev/shm") and os.access(
        "/dev/shm", os.W_OK) else os.environ.get("TMPDIR", "/var/tmp")
    d = os.path.join(base, "ngsverif-%d" % os.getpid())
    os.makedirs(d, exist_ok=True)
    return d


def run_check(prop_id, tier, seed, jobs, only_unit=None):
    modname = "mc.props." + prop_id
    mod = importlib.import_module(modname)
    t0 = time.time()
    scratch = make_scratch()
    try:
        return _run_check(mod, modname, prop_id, tier, seed, jobs, scratch,
                          t0, only_unit)
    finally:
        shutil.rmtree(scratch, ignore_errors=True)


def _run_check(mod, modname, prop_id, tier, seed, jobs, scratch, t0,
               only_unit):
    units = list(mod.units(tier))
    if only_unit is not None:
        units = [units[only_unit]]
    n_units = len(units)
    order = list(range(n_units))
    # the seed only rotates the assignment of units to workers
    if n_units:
        rot = seed % n_units
        order = order[rot:] + order[:rot]
    work = [(i, units[i]) for i in order]
    results = [None] * n_units
    echoes = []
    errors = []
    ctx = multiprocessing.get_context("fork")
    _preimport()
    # deterministic batches (strided, so every batch mixes simple and
    # complex units); each batch runs in its own fresh child process
    nb = max(1, min(n_units, BATCHES))
    batches = [work[b::nb] for b in range(nb)]
    for pos, out in _run_children(ctx, modname, scratch, _batch_run,
                                  batches, jobs):
        if isinstance(out, tuple) and out and out[0] in ("child-died",
                                                         "child-failed"):
            errors.append((batches[pos][0][0],
                           "the process running units %r ended without a "
                           "result (%s: %s)" % ([i for i, _ in batches[pos]],
                                                out[0], out[1])))
            continue
        for i, res, err in out:
            if err:
                errors.append((i, err))
            if isinstance(res, tuple) and res[0] == "echo":
                if res[1] is not None:
                    echoes.append(res[1])
                continue
            results[i] = res
    harness_failed = False
    if errors:
        # a unit whose own machinery failed (e.g. a seam/real-environment
        # mismatch) makes the run incomplete: it can never end with exit 0.
        # Violations found by the other units are still classified and
        # confirmed - a confirmed violation decides (exit 1), otherwise the
        # run ends with exit 2.
        errors.sort()
        print("HARNESS-ERROR property=%s unit=%d\n%s"
              % (prop_id, errors[0][0], errors[0][1]))
        harness_failed = True
        if not any(r is not None and r["violations"] for r in results):
            return 2

    tot = empty_result()
    known_counts = {}
    for res in results:          # index order: deterministic aggregation
        if res is None:
            continue
        for k in ("evaluations", "nontrivial", "violation_count", "states",
                  "transitions", "traces"):
            tot[k] += res[k]
        tot["max_depth"] = max(tot["max_depth"], res["max_depth"])
        tot["capped"] = tot["capped"] or res["capped"]
        for c, n in res["classes"].items():
            tot["classes"][c] = tot["classes"].get(c, 0) + n
        for c, n in res["extra"].items():
            if c.startswith("known:"):
                known_counts[c[6:]] = known_counts.get(c[6:], 0) + n
            else:
                tot["extra"][c] = tot["extra"].get(c, 0) + n
        tot["violations"].extend(res["violations"])
        for s in res["samples"]:
            if len(tot["samples"]) < 5:
                tot["samples"].append(s)

    for res in echoes:
        tot["violation_count"] += res["violation_count"]
        tot["violations"].extend(res["violations"])
    tot["extra"]["echo_units"] = len(echoes)

    # ---- classify / confirm violations
    by_sig = {}
    for rec in tot["violations"]:
        by_sig.setdefault(rec["sig"], []).append(rec)
    exit_code = 0
    confirmed = False
    lines = []
    replay_dir = os.path.join(os.environ.get(
        "VERIF_REPLAY_DIR", os.path.join(VERIF, "replays")), prop_id)
    for sig in sorted(by_sig):
        rec = min(by_sig[sig], key=lambda r: (r.get("unit", 0),))
        # every re-execution happens in a fresh child process
        again, err = _in_fresh_child(ctx, modname, scratch,
                                     ("case", rec["case"], sig))
        history_dependent = False
        unit_sequence = None
        if err or not again:
            # not reproducible in isolation: does the whole unit (the same
            # sequence of cases in one process) reproduce it, or the
            # sequence of units its batch had executed before it? Then the
            # violation depends on the history - state kept by the code
            # under test between calls - and that sequence is the artefact.
            uidx = rec.get("unit")
            found = []
            # (also when the module's replay() itself failed on this case:
            # re-executing the unit needs no case-specific replay code)
            if uidx is not None:
                found, err2 = _in_fresh_child(ctx, modname, scratch,
                                              ("units", [units[uidx]], sig))
                if found:
                    history_dependent = True
                    unit_sequence = [uidx]
                elif len(rec.get("batch_prefix") or []) > 1:
                    seq = rec["batch_prefix"]
                    found, err2 = _in_fresh_child(
                        ctx, modname, scratch,
                        ("units", [units[i] for i in seq], sig))
                    if found:
                        history_dependent = True
                        unit_sequence = list(seq)
            if not history_dependent:
                print("NONDETERMINISM property=%s signature=%s: violation "
                      "did not reproduce on re-execution%s"
                      % (prop_id, sig, ("\n" + err) if err else ""))
                print("  case: " + witness_id(rec["case"])[:600])
                exit_code = 2
                continue
        os.makedirs(replay_dir, exist_ok=True)
        name = hashlib.sha1(sig.encode()).hexdigest()[:12] + ".json"
        path = os.path.join(replay_dir, name)
        with open(path, "w") as f:
            json.dump({"property": prop_id, "signature": sig,
                       "history_dependent": history_dependent,
                       "unit": rec.get("unit") if history_dependent
                       else None, "tier": tier,
                       "unit_descriptor": units[rec["unit"]]
                       if history_dependent else None,
                       "unit_sequence": [units[i] for i in unit_sequence]
                       if unit_sequence else None,
                       "case": rec["case"], "expected": rec["expected"],
                       "observed": rec["observed"],
                       "witnesses_with_this_signature": len(by_sig[sig]),
                       "how_to_read": getattr(mod, "HOW_TO_READ", ""),
                       "replay_cmd": "./check %s --replay %s"
                                     % (prop_id, path)}, f, indent=1,
                      default=str)
        lines.append("VIOLATION property=%s replay=%s signature=%s"
                     % (prop_id, path, sig))
        confirmed = True

    if confirmed:
        # a violation that reproduced on re-execution is a violation, even
        # if other signatures of the same run did not reproduce in isolation
        exit_code = 1

    # ---- known findings: must still be findings (reported, never hidden)
    for f in load_known_findings().get("findings", []):
        if f["property"] != prop_id:
            continue
        n = known_counts.get(f["id"], 0)
        tiers = f.get("tiers")
        if n or not tiers or tier in tiers:
            print("KNOWN-FINDING: property=%s %s [%s; %d witnesses in this "
                  "run]" % (prop_id, f["what"], f["id"], n))

    head, diffhash, dirty = repo_state()
    wall = time.time() - t0
    nontrivial = tot["nontrivial"]
    cov = {
        "evaluations": tot["evaluations"],
        "distinct_nontrivial": nontrivial,
        "rule": mod.RULE,
        "samples": tot["samples"] or [units[0] if units else None],
        "exhaustive": (not tot["capped"]) and only_unit is None
        and not harness_failed,
        "units": n_units,
        "outcome_classes": dict(sorted(tot["classes"].items())),
        "known_finding_witnesses": known_counts,
        "unlisted_violation_signatures": sorted(by_sig),
        "violations_total": tot["violation_count"],
        "repo_head": head, "repo_src_diff_sha256_16": diffhash,
        "repo_dirty": dirty,
    }
    cov.update(tot["extra"])
    if hasattr(mod, "space"):
        cov["space"] = mod.space(tier)
    if mod.LEVEL == "model_checking":
        cov["states"] = tot["states"]
        cov["transitions"] = tot["transitions"]
        cov["traces_validated_against_impl"] = tot["traces"]
        cov["max_depth"] = tot["max_depth"]
    ev = {
        "property_id": prop_id, "tier": tier, "seed": seed,
        "level": mod.LEVEL, "coverage": cov,
        "assumptions": list(mod.ASSUMPTIONS),
        "wall_s": round(wall, 3),
        "violations": len(by_sig),
    }
    # (developer override used when running against a scratch clone with a
    # seeded change; MANIFEST commands never set it)
    evdir = os.environ.get("VERIF_EVIDENCE_DIR",
                           os.path.join(VERIF, "evidence"))
    os.makedirs(evdir, exist_ok=True)
    evpath = os.path.join(evdir, prop_id + ".json")
    with open(evpath, "w") as f:
        json.dump(ev, f, indent=1, default=str)
    ok, msg = validate_evidence(evpath)
    if not ok:
        print("HARNESS-ERROR evidence does not validate: " + msg)
        exit_code = 2

    summ = ("%s tier=%s units=%d evaluations=%d nontrivial=%d classes=%d"
            % (prop_id, tier, n_units, tot["evaluations"], nontrivial,
               len(tot["classes"])))
    if mod.LEVEL == "model_checking":
        summ += (" states=%d transitions=%d traces=%d max_depth=%d"
                 % (tot["states"], tot["transitions"], tot["traces"],
                    tot["max_depth"]))
    summ += " violations=%d known=%d wall=%.1fs" % (
        len(by_sig), sum(known_counts.values()), wall)
    print(summ)
    if len(tot["classes"]) <= 1 and tot["evaluations"] > 1:
        print("NOTE: a single outcome class was observed")
    # vacuity guard: the outcome classes a module declares as required must
    # have been observed, unless violations explain their absence
    if only_unit is None and exit_code == 0:
        missing = [c for c in getattr(mod, "REQUIRED_CLASSES", [])
                   if not any(k == c or k.startswith(c + "/")
                              for k in tot["classes"])]
        if missing and not known_counts:
            print("HARNESS-ERROR property=%s vacuous exploration: outcome "
                  "classes never observed: %s" % (prop_id, missing))
            exit_code = 2
    # cases whose set-up (writing the input dataset, running the preceding
    # pipeline steps) failed were not evaluated: the declared space was not
    # explored completely, which must not pass silently
    incomplete = {c: n for c, n in tot["classes"].items()
                  if c.startswith("setup-failed") or "pipeline-failed" in c
                  or c.startswith("stats-shard-unreadable")
                  or c.startswith("stats-dataset-unreadable")}
    if incomplete and exit_code == 0:
        print("HARNESS-ERROR property=%s incomplete exploration: the set-up "
              "of %d cases failed (%s)" % (prop_id, sum(incomplete.values()),
                                           sorted(incomplete)))
        exit_code = 2
    for ln in lines:
        print(ln)
    if harness_failed and exit_code == 0:
        exit_code = 2
    return exit_code


def run_replay(prop_id, path):
    mod = importlib.import_module("mc.props." + prop_id)
    with open(path) as f:
        rp = json.load(f)
    scratch = make_scratch()
    try:
        _worker_init("mc.props." + prop_id, scratch)
        with _Quiet():
            if rp.get("history_dependent"):
                # the artefact is the whole unit: the violation needs the
                # sequence of calls that precede it in one process
                seq = rp.get("unit_sequence") or [rp["unit_descriptor"]]
                for unit in seq:
                    res = mod.run_unit(unit)
                recs = [r for r in res["violations"]
                        if r["sig"] == rp["signature"]]
            else:
                recs = mod.replay(rp["case"])
    finally:
        shutil.rmtree(scratch, ignore_errors=True)
    print("replaying %s signature=%s" % (path, rp.get("signature")))
    print("case: " + witness_id(rp["case"])[:2000])
    if not recs:
        print("no violation on this tree")
        return 0
    for r in recs:
        print("VIOLATES signature=%s\n  expected: %s\n  observed: %s"
              % (r["sig"], r["expected"], r["observed"]))
    print("VIOLATION property=%s replay=%s" % (prop_id, path))
    return 1


def main(argv=None):
    import argparse
    ap = argparse.ArgumentParser(prog="check")
    ap.add_argument("prop")
    ap.add_argument("--tier", default=os.environ.get("VERIF_TIER", "quick"),
                    choices=("quick", "thorough"))
    ap.add_argument("--replay")
    ap.add_argument("--jobs", type=int,
                    default=int(os.environ.get("VERIF_JOBS", "0")) or
                    min(16, os.cpu_count() or 1))
    ap.add_argument("--unit", type=int, default=None)
    a = ap.parse_args(argv)
    try:
        seed = int(os.environ.get("VERIF_SEED", "0"))
    except ValueError:
        seed = 0
    sys.path.insert(0, VERIF)
    if a.replay:
        return run_replay(a.prop, a.replay)
    return run_check(a.prop, a.tier, seed, a.jobs, a.unit)

