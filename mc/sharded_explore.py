"""Explicit-state exploration of the sharded writer (shared by C04 and C05).

The transition relation is the real code: ShardedFileAccessor.store_chunk /
close, called in-process. A state is the full writer state (every field of
every MiniShard) plus the set of stored chunks; BFS over "store chunk c" for
every not-yet-stored chunk c, deduplicated on the full state. In EVERY state
a copy of the writer is closed into an empty directory, and the closed
dataset is checked by

  * the package's own reader on a freshly opened accessor      (C05)
  * byte identity of the shard files per stored subset          (C05)
  * a reader written from the format specification only         (C04)
"""
import copy
import hashlib
import json
import os

import numpy as np

from mc.env import sandbox
from mc.oracle import morton_spec, shard_spec

KEY = "s0"


def make_info(cfg, two_scales=False):
    mb, sb, pb = cfg["triple"]
    sharding = {"@type": "neuroglancer_uint64_sharded_v1", "hash": "identity",
                "minishard_bits": mb, "shard_bits": sb, "preshift_bits": pb,
                "minishard_index_encoding": cfg["index_enc"],
                "data_encoding": cfg["data_enc"]}
    c = cfg["chunk"]
    scales = [{"key": KEY, "size": list(cfg["size"]),
               "chunk_sizes": [[c, c, c]], "resolution": [1, 1, 1],
               "voxel_offset": [0, 0, 0], "encoding": "raw",
               "sharding": dict(sharding)}]
    if two_scales:
        size2 = [-(-s // 2) for s in cfg["size"]]
        scales.append({"key": "s1", "size": size2,
                       "chunk_sizes": [[c, c, c]], "resolution": [2, 2, 2],
                       "voxel_offset": [0, 0, 0], "encoding": "raw",
                       "sharding": dict(sharding)})
    return {"type": "image", "data_type": "uint8", "num_channels": 1,
            "scales": scales}


def grid_of(size, c):
    return tuple(-(-s // c) for s in size)


def chunk_list(size, c):
    """chunks of the grid, x fastest: (index, coords6, spec chunk id)"""
    g = grid_of(size, c)
    out = []
    i = 0
    for z in range(g[2]):
        for y in range(g[1]):
            for x in range(g[0]):
                cc = (x * c, min((x + 1) * c, size[0]),
                      y * c, min((y + 1) * c, size[1]),
                      z * c, min((z + 1) * c, size[2]))
                out.append((i, cc,
                            morton_spec.compressed_morton_code((x, y, z), g)))
                i += 1
    return out


PAYLOAD_MODE = ["small"]
_BIG_CACHE = {}
BIG_LENGTHS = [4095, 4097, 0, 3000, 9000, 4096, 1, 8192, 12289]
# further length patterns: small chunks after a big one (a tail that stays
# in a write-combining buffer), and chunks that make one minishard exceed
# 64 KiB and straddle 64 KiB boundaries of the shard file
BIG_TABLES = {
    "big": BIG_LENGTHS,
    "big2": [5000, 100, 200, 300, 4000, 50, 7000, 10, 20, 4096, 3],
    "huge": [30000, 40000, 100, 70000, 5, 65536, 1, 8000, 8000, 8000, 131073],
}


import zlib as _zlib  # noqa: E402

# payloads that look like compressed streams although they are stored in a
# "raw" dataset (first byte 0x78, a complete zlib stream, the gzip magic)
MAGIC_PAYLOADS = [b"x", b"x\x9c", _zlib.compress(b"not what was stored"),
                  b"\x1f\x8b\x08\x00", b"\x78\x01\x00", b"xyz",
                  _zlib.compress(b""), b"\x78\xda\x03\x00\x00\x00\x00\x01"]


def payload(i):
    """distinct payloads, lengths 0..5, chunk 2 is empty ("big" mode:
    lengths around the 4096-byte read size of the write buffers)"""
    if PAYLOAD_MODE[0] == "magic":
        return MAGIC_PAYLOADS[i % len(MAGIC_PAYLOADS)] + bytes([i % 256])
    if PAYLOAD_MODE[0] in BIG_TABLES:
        tab = BIG_TABLES[PAYLOAD_MODE[0]]
        n = tab[i % len(tab)]
        key = (i, n)
        if key not in _BIG_CACHE:
            if len(_BIG_CACHE) > 64:
                _BIG_CACHE.clear()
            one = bytes((i * 31 + k * 7 + k // 251) % 256
                        for k in range(min(n, 4099)))
            _BIG_CACHE[key] = (one * (n // max(1, len(one)) + 1))[:n]
        return _BIG_CACHE[key]
    if i == 2:
        return b""
    b = bytes([(17 * i + 3) % 251 + 1]) * (i % 5 + 1) + bytes([i % 256])
    # encoders hand over bytes or bytearray (compressed_segmentation)
    return bytearray(b) if i % 3 == 1 else b


def new_dataset_dir(cfg, tag="sh", two_scales=False):
    d = sandbox.fresh_dir(tag)
    with open(os.path.join(d, "info"), "w") as f:
        json.dump(make_info(cfg, two_scales), f)
    return d


def open_writer(d, strategy):
    sandbox.install_atexit_capture()
    from neuroglancer_scripts import accessor, sharded_file_accessor
    if strategy == "on disk":
        # the documented way; the library's default buffering strategy
        acc = accessor.get_accessor_for_url(d, {"sharding": True})
        assert type(acc).__name__ == "ShardedFileAccessor"
    else:
        acc = sharded_file_accessor.ShardedFileAccessor(d,
                                                        strategy=strategy)
    sandbox.drop_captured_exit_handlers()
    return acc


def writer_canon(acc):
    """full writer state: every field of every MiniShard. If the writer's
    internals are refactored the fallback is a pickle of the whole object
    graph (over-fine at worst, which only costs time, never soundness)."""
    try:
        return _writer_canon_fields(acc)
    except AttributeError:
        import pickle
        return hashlib.sha256(pickle.dumps(acc.__dict__)).hexdigest()


def _writer_canon_fields(acc):
    items = []
    for skey, scale in sorted(acc.shard_dict.items()):
        for shk, shard in sorted(scale.shard_dict.items(),
                                 key=lambda kv: int(kv[0])):
            for mk, m in sorted(shard.minishard_dict.items(),
                                key=lambda kv: int(kv[0])):
                buf = m._chunk_buffer
                bufitems = sorted((int(k), bytes(buf[k]))
                                  for k in buf.keys())
                data = b"".join(bytes(b) for b in m.databytearray)
                items.append((skey, int(shk), int(mk), int(m._appended),
                              int(m._last_chunk_id), bufitems, data,
                              m.header.tobytes(),
                              None if m.masked_bits is None
                              else int(m.masked_bits), int(m._offset),
                              bool(shard.dirty)))
    return hashlib.sha256(repr(items).encode()).hexdigest()


def wipe_scale_dirs(d):
    for name in os.listdir(d):
        p = os.path.join(d, name)
        if os.path.isdir(p):
            sandbox.rm(p)


def dir_digest(d):
    """{relative path: sha256} of everything except the info file"""
    out = {}
    for root, dirs, files in os.walk(d):
        for f in files:
            p = os.path.join(root, f)
            rel = os.path.relpath(p, d)
            if rel == "info":
                continue
            with open(p, "rb") as fh:
                out[rel] = hashlib.sha256(fh.read()).hexdigest()
    return out


class Violations:
    """collects (sig, case, expected, observed) for the caller to filter by
    property family"""

    def __init__(self):
        self.items = []

    def add(self, sig, case, expected=None, observed=None):
        self.items.append((sig, case, expected, observed))


def case_of(cfg, order, **kw):
    c = {"size": list(cfg["size"]), "chunk": cfg["chunk"],
         "triple": list(cfg["triple"]), "index_enc": cfg["index_enc"],
         "data_enc": cfg["data_enc"], "strategy": cfg["strategy"],
         "order": list(order),
         "any_gzip": "gzip" in (cfg["index_enc"], cfg["data_enc"])}
    if cfg.get("payloads"):
        c["payloads"] = cfg["payloads"]
    c.update(kw)
    return c


def check_closed(cfg, d, stored, chunks, order, vio, pkg=True, spec=True,
                 key=KEY):
    """oracles on a closed dataset directory. `stored` = set of chunk
    indices; `chunks` = chunk_list()."""
    case = case_of(cfg, order)
    if key != KEY:
        case["scale"] = key
    mb, sb, pb = cfg["triple"]
    if pkg:
        from neuroglancer_scripts import accessor
        try:
            rd = accessor.get_accessor_for_url(d)
            sandbox.drop_captured_exit_handlers()
            if type(rd).__name__ != "ShardedFileAccessor":
                vio.add("C05/reopen/not-dispatched-to-sharded-reader", case,
                        "ShardedFileAccessor", type(rd).__name__)
                rd = None
        except Exception as exc:
            vio.add("C05/reopen/exception/" + type(exc).__name__, case,
                    "accessor", repr(exc)[:300])
            rd = None
        if rd is not None:
            for i, cc, cid in chunks:
                try:
                    got = rd.fetch_chunk(key, cc)
                except Exception as exc:
                    if i in stored:
                        c2 = dict(case)
                        c2["fetch"] = i
                        vio.add("C05/fetch/stored-chunk-not-readable/"
                                + type(exc).__name__, c2,
                                "the stored bytes", repr(exc)[:300])
                    continue
                if i in stored:
                    if bytes(got) != bytes(payload(i)):
                        c2 = dict(case)
                        c2["fetch"] = i
                        vio.add("C05/fetch/wrong-bytes", c2,
                                bytes(payload(i)).hex()[:200], bytes(got).hex()[:200])
                elif len(got) != 0:
                    c2 = dict(case)
                    c2["fetch"] = i
                    vio.add("C05/unstored-chunk-returned-data", c2,
                            "exception or empty", bytes(got).hex()[:200])
    if spec:
        sdir = os.path.join(d, key)
        params = {"minishard_bits": mb, "shard_bits": sb,
                  "preshift_bits": pb,
                  "minishard_index_encoding": cfg["index_enc"],
                  "data_encoding": cfg["data_enc"]}
        rd = shard_spec.SpecReader(sdir, params)
        wanted_files = set()
        for i, cc, cid in chunks:
            path, _, _ = shard_spec.shard_path(sdir, cid, params)
            if i in stored:
                wanted_files.add(os.path.basename(path))
            try:
                got = rd.fetch(cid)
            except shard_spec.SpecViolation as exc:
                c2 = dict(case)
                c2["fetch"] = i
                vio.add("C04/spec/" + exc.tag, c2, "well-formed shard",
                        str(exc)[:300])
                continue
            if i in stored:
                if got is None:
                    c2 = dict(case)
                    c2["fetch"] = i
                    vio.add("C04/spec/stored-chunk-not-found", c2,
                            "chunk id %d in %s" % (
                                cid, os.path.basename(path)),
                            "no such entry at the minishard's slot")
                elif got != bytes(payload(i)):
                    c2 = dict(case)
                    c2["fetch"] = i
                    vio.add("C04/spec/wrong-bytes", c2, bytes(payload(i)).hex()[:200],
                            got.hex()[:200])
            elif got:
                c2 = dict(case)
                c2["fetch"] = i
                vio.add("C04/spec/unstored-chunk-has-data", c2, "absent",
                        got.hex()[:200])
        for note in sorted(rd.notes):
            vio.add("C04/spec/" + note, case, "RFC 1952 gzip stream",
                    "RFC 1950 zlib stream")
        present = set(os.listdir(sdir)) if os.path.isdir(sdir) else set()
        for name in sorted(present - wanted_files):
            vio.add("C04/files/unexpected-file", case,
                    sorted(wanted_files), name)
        for name in sorted(wanted_files - present):
            vio.add("C04/files/missing-shard-file", case, name,
                    sorted(present))


def run_history(cfg, order, vio, pkg=True, spec=True):
    """replay one store order on a fresh writer, close, check.
    returns (dir digest or None)"""
    if (cfg.get("payloads") in BIG_TABLES or cfg.get("payloads") == "magic") \
            and PAYLOAD_MODE[0] != cfg["payloads"]:
        PAYLOAD_MODE[0] = cfg["payloads"]
        try:
            return run_history(cfg, order, vio, pkg, spec)
        finally:
            PAYLOAD_MODE[0] = "small"
    chunks = chunk_list(cfg["size"], cfg["chunk"])
    d = new_dataset_dir(cfg)
    try:
        acc = open_writer(d, cfg["strategy"])
        for n, i in enumerate(order):
            try:
                acc.store_chunk(payload(i), KEY, chunks[i][1])
            except Exception as exc:
                vio.add("C05/store/exception/" + type(exc).__name__,
                        case_of(cfg, order[:n + 1]), "stored",
                        repr(exc)[:300])
                return None
        try:
            with sandbox.quiet():
                acc.close()
        except Exception as exc:
            vio.add("C05/close/exception/" + type(exc).__name__,
                    case_of(cfg, order), "closed", repr(exc)[:300])
            return None
        check_closed(cfg, d, set(order), chunks, order, vio, pkg, spec)
        return dir_digest(d)
    finally:
        sandbox.drop_captured_exit_handlers()
        sandbox.rm(d)


def bfs(cfg, vio, max_states=20000, pkg=True, spec=True):
    """BFS over store orders with the in-memory strategy (deep-copyable).
    Returns stats dict."""
    assert cfg["strategy"] == "in memory"
    chunks = chunk_list(cfg["size"], cfg["chunk"])
    n = len(chunks)
    d = new_dataset_dir(cfg)
    stats = {"states": 0, "transitions": 0, "traces": 0, "max_depth": 0,
             "subsets": 0, "confluence_breaks": 0, "capped": False,
             "digests": {}}
    try:
        acc0 = open_writer(d, "in memory")
        seen = {}
        subset_digest = {}
        subset_canon = {}
        frontier = [((), acc0)]

        def visit(order, acc):
            """close a copy into the emptied directory and run the oracles"""
            stats["traces"] += 1
            wipe_scale_dirs(d)
            acc3 = copy.deepcopy(acc)
            try:
                with sandbox.quiet():
                    acc3.close()
            except Exception as exc:
                vio.add("C05/close/exception/" + type(exc).__name__,
                        case_of(cfg, order), "closed", repr(exc)[:300])
                return
            check_closed(cfg, d, set(order), chunks, order, vio, pkg, spec)
            dg = dir_digest(d)
            key = frozenset(order)
            if key not in subset_digest:
                subset_digest[key] = (dg, order)
            elif subset_digest[key][0] != dg:
                vio.add("C05/bytes/shard-files-differ-across-store-orders",
                        case_of(cfg, order,
                                other_order=list(subset_digest[key][1])),
                        "byte-identical shard files", "different bytes")
            wipe_scale_dirs(d)

        k0 = (frozenset(), writer_canon(acc0))
        seen[k0] = ()
        stats["states"] = 1
        visit((), acc0)
        while frontier:
            nxt = []
            for order, acc in frontier:
                stats["max_depth"] = max(stats["max_depth"], len(order))
                for i in range(n):
                    if i in order:
                        continue
                    acc2 = copy.deepcopy(acc)
                    stats["transitions"] += 1
                    o2 = order + (i,)
                    try:
                        acc2.store_chunk(payload(i), KEY, chunks[i][1])
                    except Exception as exc:
                        vio.add("C05/store/exception/" + type(exc).__name__,
                                case_of(cfg, o2), "stored", repr(exc)[:300])
                        continue
                    sub = frozenset(o2)
                    k = (sub, writer_canon(acc2))
                    if k in seen:
                        continue
                    if sub in subset_canon and subset_canon[sub] != k[1]:
                        stats["confluence_breaks"] += 1
                    subset_canon.setdefault(sub, k[1])
                    seen[k] = o2
                    stats["states"] += 1
                    visit(o2, acc2)
                    if stats["states"] >= max_states:
                        stats["capped"] = True
                        break
                    nxt.append((o2, acc2))
                if stats["capped"]:
                    break
            if stats["capped"]:
                break
            frontier = nxt
        stats["max_depth"] = max(stats["max_depth"],
                                 max((len(o) for o in seen.values()),
                                     default=0))
        stats["subsets"] = len(subset_digest)
        stats["digests"] = {k: v for k, v in subset_digest.items()}
        return stats
    finally:
        sandbox.drop_captured_exit_handlers()
        sandbox.rm(d)


def run_two_scale(cfg, order0, order1, vio, pkg=True, spec=True,
                  mode="close-between"):
    """the pattern compute_dyadic_scales uses on one accessor object: store
    chunks of scale s0, close, store chunks of scale s1, close, close again
    (must be a no-op). Both scales are then checked like a one-scale
    dataset. Returns the directory digest or None.

    mode "single-close": what convert_chunks does - all of s0, then all of
    s1, one close at the end (both scales' write buffers alive together);
    mode "alternating": chunks of the two scales stored alternately, one
    close at the end."""
    size1 = [-(-x // 2) for x in cfg["size"]]
    chunks0 = chunk_list(cfg["size"], cfg["chunk"])
    chunks1 = chunk_list(size1, cfg["chunk"])
    d = new_dataset_dir(cfg, two_scales=True)
    case = case_of(cfg, order0, order_s1=list(order1), family="two-scale")
    if mode != "close-between":
        case["mode"] = mode
    try:
        acc = open_writer(d, cfg["strategy"])
        try:
            if mode == "alternating":
                seq = []
                for k in range(max(len(order0), len(order1))):
                    if k < len(order0):
                        seq.append((0, order0[k]))
                    if k < len(order1):
                        seq.append((1, order1[k]))
                for sc, i in seq:
                    if sc == 0:
                        acc.store_chunk(payload(i), KEY, chunks0[i][1])
                    else:
                        acc.store_chunk(payload(i + 50), "s1",
                                        chunks1[i][1])
                mid = {}
            else:
                for i in order0:
                    acc.store_chunk(payload(i), KEY, chunks0[i][1])
                if mode == "close-between":
                    with sandbox.quiet():
                        acc.close()
                    mid = dir_digest(d)
                else:
                    mid = {}
                for i in order1:
                    acc.store_chunk(payload(i + 50), "s1", chunks1[i][1])
            with sandbox.quiet():
                acc.close()
            after = dir_digest(d)
            with sandbox.quiet():
                acc.close()
        except Exception as exc:
            vio.add("C05/two-scale/exception/" + type(exc).__name__, case,
                    "stored and closed", repr(exc)[:300])
            return None
        if dir_digest(d) != after:
            vio.add("C05/two-scale/repeated-close-changed-the-files", case,
                    "no-op", "files changed")
        for rel, h in mid.items():
            if after.get(rel) != h:
                vio.add("C05/two-scale/closing-the-second-scale-changed-the-"
                        "first", case, "scale s0 files unchanged", rel)
        v0 = Violations()
        check_closed(cfg, d, set(order0), chunks0, order0, v0, pkg, spec)
        v1 = Violations()
        # payload(i + 50) was stored for scale s1: compare by re-keying
        _check_scale(cfg, d, "s1", set(order1), chunks1, 50, case, v1, pkg,
                     spec)
        for sig, c, e, o in v0.items + v1.items:
            c = dict(c, order_s1=list(order1), family="two-scale")
            if mode != "close-between":
                c["mode"] = mode
            vio.add(sig, c, e, o)
        return after
    finally:
        sandbox.drop_captured_exit_handlers()
        sandbox.rm(d)


def _check_scale(cfg, d, key, stored, chunks, off, case, vio, pkg, spec):
    """package reader + spec reader on one further scale whose payloads are
    payload(i + off)"""
    mb, sb, pb = cfg["triple"]
    if pkg:
        from neuroglancer_scripts import accessor
        try:
            rd = accessor.get_accessor_for_url(d)
            drop = sandbox.drop_captured_exit_handlers
            drop()
        except Exception as exc:
            vio.add("C05/reopen/exception/" + type(exc).__name__, case,
                    "accessor", repr(exc)[:300])
            rd = None
        if rd is not None:
            for i, cc, cid in chunks:
                c2 = dict(case, fetch=i, scale=key)
                try:
                    got = rd.fetch_chunk(key, cc)
                except Exception as exc:
                    if i in stored:
                        vio.add("C05/fetch/stored-chunk-not-readable/"
                                + type(exc).__name__, c2, "the stored bytes",
                                repr(exc)[:300])
                    continue
                if i in stored:
                    if bytes(got) != bytes(payload(i + off)):
                        vio.add("C05/fetch/wrong-bytes", c2,
                                bytes(payload(i + off)).hex()[:200],
                                bytes(got).hex()[:200])
                elif len(got) != 0:
                    vio.add("C05/unstored-chunk-returned-data", c2,
                            "exception or empty", bytes(got).hex()[:200])
    if spec:
        sdir = os.path.join(d, key)
        params = {"minishard_bits": mb, "shard_bits": sb,
                  "preshift_bits": pb,
                  "minishard_index_encoding": cfg["index_enc"],
                  "data_encoding": cfg["data_enc"]}
        rd = shard_spec.SpecReader(sdir, params)
        for i, cc, cid in chunks:
            c2 = dict(case, fetch=i, scale=key)
            try:
                got = rd.fetch(cid)
            except shard_spec.SpecViolation as exc:
                vio.add("C04/spec/" + exc.tag, c2, "well-formed shard",
                        str(exc)[:300])
                continue
            if i in stored and got is None:
                vio.add("C04/spec/stored-chunk-not-found", c2,
                        "chunk id %d" % cid, "no entry")
            elif i in stored and got != bytes(payload(i + off)):
                vio.add("C04/spec/wrong-bytes", c2,
                        bytes(payload(i + off)).hex()[:200], got.hex()[:200])
            elif i not in stored and got:
                vio.add("C04/spec/unstored-chunk-has-data", c2, "absent",
                        got.hex()[:200])
