"""Exact references for numeric properties (C07, C11, C01, C13).

Python ints and fractions.Fraction only - never NumPy promotion. NumPy is
used solely to enumerate the float32 lattice (nextafter) and type limits.
"""
from fractions import Fraction

import numpy as np

INT_RANGE = {
    "int8": (-2 ** 7, 2 ** 7 - 1), "uint8": (0, 2 ** 8 - 1),
    "int16": (-2 ** 15, 2 ** 15 - 1), "uint16": (0, 2 ** 16 - 1),
    "int32": (-2 ** 31, 2 ** 31 - 1), "uint32": (0, 2 ** 32 - 1),
    "int64": (-2 ** 63, 2 ** 63 - 1), "uint64": (0, 2 ** 64 - 1),
}
F32_MAX = Fraction(int(np.finfo(np.float32).max))


def is_int_type(name):
    return name in INT_RANGE


def round_half_even(x):
    """nearest integer of a Fraction, ties to even"""
    x = Fraction(x)
    fl = x.numerator // x.denominator
    rem = x - fl
    if rem > Fraction(1, 2) or (rem == Fraction(1, 2) and fl % 2 == 1):
        return fl + 1
    return fl


def nearest_float32(x):
    """correctly rounded (ties to even) float32 of an exact rational, with
    saturation to +-max instead of infinity; returned as np.float32"""
    x = Fraction(x)
    if x > F32_MAX:
        return np.float32(np.finfo(np.float32).max)
    if x < -F32_MAX:
        return np.float32(-np.finfo(np.float32).max)
    with np.errstate(all="ignore"):
        f = np.float32(float(x))
        cands = {f, np.nextafter(f, np.float32(np.inf)),
                 np.nextafter(f, np.float32(-np.inf))}
    best = None
    for c in cands:
        if not np.isfinite(c):
            continue
        d = abs(Fraction(float(c)) - x)
        even = (int(np.float32(c).view(np.uint32)) & 1) == 0
        key = (d, 0 if even else 1)
        if best is None or key < best[0]:
            best = (key, c)
    return np.float32(best[1])


def convert(x, out):
    """the representable target value nearest to the exact value x:
    integers: round half to even, then saturate; float32: correctly rounded,
    saturating at +-max. Returns int or np.float32."""
    x = Fraction(x)
    if is_int_type(out):
        lo, hi = INT_RANGE[out]
        return min(max(round_half_even(x), lo), hi)
    if out == "float32":
        return nearest_float32(x)
    if out == "float64":
        return float(x)
    raise ValueError(out)


def to_fraction(v):
    """exact value of a NumPy scalar / Python number"""
    if isinstance(v, (int, np.integer)):
        return Fraction(int(v))
    return Fraction(float(v))


def representable(x, dtype):
    """is the exact rational x a value of dtype?"""
    x = Fraction(x)
    if is_int_type(dtype):
        lo, hi = INT_RANGE[dtype]
        return x.denominator == 1 and lo <= x <= hi
    if dtype == "float32":
        if abs(x) > F32_MAX:
            return False
        with np.errstate(all="ignore"):
            return Fraction(float(np.float32(float(x)))) == x \
                and Fraction(float(x)) == x
    if dtype == "float64":
        try:
            return Fraction(float(x)) == x
        except OverflowError:
            return False
    raise ValueError(dtype)


def make_array(values, dtype):
    """1-D array of dtype holding exactly the rationals in values"""
    if is_int_type(dtype):
        return np.array([int(Fraction(v)) for v in values], dtype=dtype)
    return np.array([float(Fraction(v)) for v in values], dtype=dtype)


def same(got, want, out):
    """exact equality of a result element and the reference"""
    if is_int_type(out):
        return int(got) == int(want)
    g, w = np.float32(got), np.float32(want)
    return g.view(np.uint32) == w.view(np.uint32) or (g == w)


# ---- block statistics (C07) ----------------------------------------------
def block_mean(values):
    """exact mean of a list of rationals"""
    return sum(Fraction(v) for v in values) / len(values)


def majority(values):
    """most frequent value, smallest on ties"""
    counts = {}
    for v in values:
        counts[v] = counts.get(v, 0) + 1
    best = max(counts.values())
    return min(v for v, c in counts.items() if c == best)
