"""Reader for neuroglancer_uint64_sharded_v1 written from the specification
text only (DESIGN.md Appendix A.1).  Never imports the package under test.

Python ints and struct only.
"""
import gzip
import os
import struct
import zlib

from mc.oracle import morton_spec

U64 = (1 << 64) - 1


class SpecViolation(Exception):
    def __init__(self, tag, msg):
        super().__init__(msg)
        self.tag = tag


def decode_payload(buf, encoding, notes):
    """'gzip' is an RFC 1952 stream. A zlib (RFC 1950) stream is noted as a
    framing defect and then inflated anyway so that the remaining structure
    can still be checked (DESIGN section 4, 'not masking')."""
    if encoding == "raw":
        return buf
    if encoding != "gzip":
        raise SpecViolation("encoding", "unknown encoding %r" % (encoding,))
    try:
        return gzip.decompress(buf)
    except Exception as exc:
        try:
            out = zlib.decompress(buf)
        except Exception:
            raise SpecViolation("gzip-corrupt",
                                "not a gzip stream: %s" % exc)
        notes.add("gzip-framing-is-rfc1950")
        return out


def parse_shard(data, minishard_bits, index_encoding):
    """Return {minishard_number: [(chunk_id, abs_start, size), ...]} and the
    set of notes. Raises SpecViolation on any structural defect."""
    notes = set()
    n_mini = 1 << minishard_bits
    idx_len = 16 * n_mini
    if len(data) < idx_len:
        raise SpecViolation("shard-index-truncated",
                            "file has %d bytes, shard index needs %d"
                            % (len(data), idx_len))
    entries = struct.unpack("<%dQ" % (2 * n_mini), data[:idx_len])
    out = {}
    index_areas = []
    for m in range(n_mini):
        start, end = entries[2 * m], entries[2 * m + 1]
        if start == end:
            continue
        if start > end:
            raise SpecViolation("shard-index-range",
                                "minishard %d: start %d > end %d"
                                % (m, start, end))
        a, b = idx_len + start, idx_len + end
        if b > len(data):
            raise SpecViolation("shard-index-range",
                                "minishard %d index [%d,%d) outside file of "
                                "%d bytes" % (m, a, b, len(data)))
        raw = decode_payload(data[a:b], index_encoding, notes)
        if len(raw) % 24 != 0:
            raise SpecViolation("minishard-index-length",
                                "minishard %d: %d bytes is not 24*n"
                                % (m, len(raw)))
        n = len(raw) // 24
        vals = struct.unpack("<%dQ" % (3 * n), raw)
        ids, offs, sizes = vals[:n], vals[n:2 * n], vals[2 * n:]
        chunks = []
        cid = 0
        pos = idx_len
        for i in range(n):
            cid = (cid + ids[i]) & U64 if i else ids[0]
            if i and ids[i] == 0:
                raise SpecViolation("ids-not-increasing",
                                    "minishard %d entry %d repeats id %d"
                                    % (m, i, cid))
            if i and cid <= chunks[-1][0]:
                raise SpecViolation("ids-not-increasing",
                                    "minishard %d entry %d: id %d after %d"
                                    % (m, i, cid, chunks[-1][0]))
            pos = pos + offs[i]
            chunks.append((cid, pos, sizes[i]))
            if pos + sizes[i] > len(data):
                raise SpecViolation("chunk-range",
                                    "minishard %d chunk %d [%d,+%d) outside "
                                    "file of %d bytes"
                                    % (m, cid, pos, sizes[i], len(data)))
            pos += sizes[i]
        out[m] = chunks
        index_areas.append((a, b, "index of minishard %d" % m))
    # ranges pairwise disjoint and disjoint from the index areas
    spans = [(0, idx_len, "shard index")] + index_areas
    for m, chunks in out.items():
        for cid, pos, size in chunks:
            if size:
                spans.append((pos, pos + size, "chunk %d" % cid))
    spans.sort()
    for (a0, b0, n0), (a1, b1, n1) in zip(spans, spans[1:]):
        if a1 < b0:
            raise SpecViolation("ranges-overlap",
                                "%s [%d,%d) overlaps %s [%d,%d)"
                                % (n0, a0, b0, n1, a1, b1))
    return out, notes


def shard_path(scale_dir, chunk_id, p):
    shard, mini = morton_spec.route(chunk_id, p["preshift_bits"],
                                    p["minishard_bits"], p["shard_bits"])
    stem = morton_spec.shard_file_stem(shard, p["shard_bits"])
    return os.path.join(scale_dir, stem + ".shard"), shard, mini


class SpecReader:
    """Reads chunks of one scale directory following the spec only."""

    def __init__(self, scale_dir, params):
        self.dir = scale_dir
        self.p = params
        self._cache = {}
        self.notes = set()

    def _shard(self, path):
        if path not in self._cache:
            if not os.path.isfile(path):
                self._cache[path] = None
            else:
                with open(path, "rb") as f:
                    data = f.read()
                parsed, notes = parse_shard(
                    data, self.p["minishard_bits"],
                    self.p["minishard_index_encoding"])
                self.notes |= notes
                self._cache[path] = (data, parsed)
        return self._cache[path]

    def fetch(self, chunk_id):
        """bytes of the chunk, or None if the spec reader finds no entry"""
        path, shard, mini = shard_path(self.dir, chunk_id, self.p)
        sh = self._shard(path)
        if sh is None:
            return None
        data, parsed = sh
        for cid, pos, size in parsed.get(mini, ()):
            if cid == chunk_id:
                if size == 0:
                    return b""      # listed, no bytes (gap filler)
                return decode_payload(data[pos:pos + size],
                                      self.p["data_encoding"], self.notes)
        return None

    def all_entries(self):
        """[(file name, minishard, chunk id, size)] for every .shard file"""
        out = []
        for name in sorted(os.listdir(self.dir)):
            path = os.path.join(self.dir, name)
            if name.endswith(".shard") and os.path.isfile(path):
                sh = self._shard(path)
                for mini, chunks in sorted(sh[1].items()):
                    for cid, pos, size in chunks:
                        out.append((name, mini, cid, size))
        return out


def build_shard(chunks, minishard_bits, route_minishard, layout="reversed"):
    """An independent WRITER for one shard file (raw encodings): `chunks`
    maps chunk id -> bytes, `route_minishard(id)` gives the minishard number.
    The format fixes the shard index at the start of the file and the
    encoding of each minishard index, but neither the order nor the place of
    the minishard indices and of the chunk data. Layouts:
      "reversed"      indices of all used minishards first, highest minishard
                      first, then the chunk data, highest minishard first
      "interleaved"   per minishard (highest first): its index, then its data
      "data-first"    chunk data (lowest first), then indices highest first
    """
    n_mini = 1 << minishard_bits
    idx_len = 16 * n_mini
    by_m = {}
    for cid in sorted(chunks):
        by_m.setdefault(route_minishard(cid), []).append(cid)
    used = sorted(by_m, reverse=True)
    sizes = {m: 24 * len(by_m[m]) for m in used}
    # decide positions (relative to the end of the shard index)
    pos = 0
    index_at, data_at = {}, {}
    if layout == "reversed":
        for m in used:
            index_at[m] = pos
            pos += sizes[m]
        for m in used:
            data_at[m] = pos
            pos += sum(len(chunks[c]) for c in by_m[m])
    elif layout == "interleaved":
        for m in used:
            index_at[m] = pos
            pos += sizes[m]
            data_at[m] = pos
            pos += sum(len(chunks[c]) for c in by_m[m])
    else:
        for m in sorted(by_m):
            data_at[m] = pos
            pos += sum(len(chunks[c]) for c in by_m[m])
        for m in used:
            index_at[m] = pos
            pos += sizes[m]
    body = bytearray(pos)
    entries = [0] * (2 * n_mini)
    for m in used:
        ids = by_m[m]
        d_ids = [ids[0]] + [b - a for a, b in zip(ids, ids[1:])]
        offs = [data_at[m]] + [0] * (len(ids) - 1)   # data is contiguous
        lens = [len(chunks[c]) for c in ids]
        raw = struct.pack("<%dQ" % (3 * len(ids)), *(d_ids + offs + lens))
        body[index_at[m]:index_at[m] + len(raw)] = raw
        p = data_at[m]
        for c in ids:
            body[p:p + len(chunks[c])] = chunks[c]
            p += len(chunks[c])
        entries[2 * m], entries[2 * m + 1] = index_at[m], \
            index_at[m] + len(raw)
    return struct.pack("<%dQ" % (2 * n_mini), *entries) + bytes(body)
