"""compressed_segmentation decoder / validator / variant encoder written from
the format text only (DESIGN.md Appendix A.2). Python ints and struct; never
imports the package under test.

Shapes: chunk arrays are indexed (C, Z, Y, X); block size is (bx, by, bz).
"""
import struct

VALID_BITS = (0, 1, 2, 4, 8, 16, 32)


class SpecError(Exception):
    def __init__(self, tag, msg):
        super().__init__(msg)
        self.tag = tag


def _u32(buf, byte_off, what):
    if byte_off < 0 or byte_off + 4 > len(buf):
        raise SpecError("out-of-file", "%s at byte %d outside file of %d "
                        "bytes" % (what, byte_off, len(buf)))
    return struct.unpack_from("<I", buf, byte_off)[0]


def grid(shape_zyx, block):
    Z, Y, X = shape_zyx
    bx, by, bz = block
    return (-(-X // bx), -(-Y // by), -(-Z // bz))


def decode(buf, num_channels, shape_zyx, block, itemsize, strict=True,
           check_padding=False):
    """-> list over channels of flat lists (z,y,x order, C layout) of ints.
    Raises SpecError if the file is not well formed. With strict=True the
    structural rules that a validator checks are enforced as well."""
    buf = bytes(buf)
    Z, Y, X = shape_zyx
    bx, by, bz = block
    gx, gy, gz = grid(shape_zyx, block)
    if len(buf) % 4 and strict:
        raise SpecError("length-not-multiple-of-4", "%d bytes" % len(buf))
    out = []
    for c in range(num_channels):
        cw = _u32(buf, 4 * c, "channel %d offset" % c)
        if strict and cw < num_channels:
            raise SpecError("channel-offset-inside-channel-table",
                            "channel %d offset %d words < %d"
                            % (c, cw, num_channels))
        base = 4 * cw
        if base + 8 * gx * gy * gz > len(buf):
            raise SpecError("out-of-file", "channel %d header [%d,+%d) "
                            "outside file of %d bytes"
                            % (c, base, 8 * gx * gy * gz, len(buf)))
        vol = [0] * (Z * Y * X)
        for z in range(gz):
            for y in range(gy):
                for x in range(gx):
                    h = base + 8 * (x + gx * (y + gy * z))
                    w0 = _u32(buf, h, "block header")
                    w1 = _u32(buf, h + 4, "block header")
                    bits = w0 >> 24
                    toff = base + 4 * (w0 & 0xFFFFFF)
                    voff = base + 4 * w1
                    if bits not in VALID_BITS:
                        raise SpecError("invalid-bits", "block (%d,%d,%d) "
                                        "bits=%d" % (x, y, z, bits))
                    nvox = bx * by * bz
                    if bits and strict:
                        nwords = -(-nvox * bits // 32)
                        if voff + 4 * nwords > len(buf):
                            raise SpecError(
                                "out-of-file", "encoded values of block "
                                "(%d,%d,%d) [%d,+%d) outside file of %d "
                                "bytes" % (x, y, z, voff, 4 * nwords,
                                           len(buf)))
                    mask = (1 << bits) - 1
                    if check_padding:
                        # the format leaves the content of padding voxels of
                        # border blocks unspecified; with check_padding the
                        # file is only called valid if they, too, reference
                        # lookup entries inside the file
                        for i in range(nvox):
                            if bits:
                                word = _u32(buf, voff + 4 * (
                                    (i * bits) // 32), "encoded value")
                                idx = (word >> ((i * bits) % 32)) & mask
                            else:
                                idx = 0
                            lo = toff + idx * itemsize
                            if lo < 0 or lo + itemsize > len(buf):
                                raise SpecError(
                                    "out-of-file", "lookup entry of a "
                                    "padding voxel outside the file")
                    for dz in range(min(bz, Z - z * bz)):
                        for dy in range(min(by, Y - y * by)):
                            for dx in range(min(bx, X - x * bx)):
                                if bits:
                                    i = dx + bx * (dy + by * dz)
                                    word = _u32(buf, voff + 4 * (
                                        (i * bits) // 32), "encoded value")
                                    idx = (word >> ((i * bits) % 32)) & mask
                                else:
                                    idx = 0
                                lo = toff + idx * itemsize
                                if lo < 0 or lo + itemsize > len(buf):
                                    raise SpecError(
                                        "out-of-file", "lookup entry %d of "
                                        "block (%d,%d,%d) at byte %d outside "
                                        "file of %d bytes"
                                        % (idx, x, y, z, lo, len(buf)))
                                val = int.from_bytes(buf[lo:lo + itemsize],
                                                     "little")
                                vol[((z * bz + dz) * Y + (y * by + dy)) * X
                                    + (x * bx + dx)] = val
        out.append(vol)
    return out


def decode_np(buf, num_channels, shape_zyx, block, itemsize):
    """The same decoding rules as decode() (strict), vectorised per block
    with numpy so that chunks of tens of megabytes can be checked; still
    independent of the package under test. -> (C,Z,Y,X) uint array."""
    import numpy as np
    buf = bytes(buf)
    Z, Y, X = shape_zyx
    bx, by, bz = block
    gx, gy, gz = grid(shape_zyx, block)
    if len(buf) % 4:
        raise SpecError("length-not-multiple-of-4", "%d bytes" % len(buf))
    words = np.frombuffer(buf, dtype="<u4")
    dt = "<u4" if itemsize == 4 else "<u8"
    out = np.zeros((num_channels, Z, Y, X), dtype=dt)
    nvox = bx * by * bz
    for c in range(num_channels):
        cw = _u32(buf, 4 * c, "channel %d offset" % c)
        if cw < num_channels:
            raise SpecError("channel-offset-inside-channel-table", "")
        base = 4 * cw
        if base + 8 * gx * gy * gz > len(buf):
            raise SpecError("out-of-file", "channel %d header" % c)
        for z in range(gz):
            for y in range(gy):
                for x in range(gx):
                    h = base + 8 * (x + gx * (y + gy * z))
                    w0 = _u32(buf, h, "block header")
                    w1 = _u32(buf, h + 4, "block header")
                    bits = w0 >> 24
                    toff = base + 4 * (w0 & 0xFFFFFF)
                    voff = base + 4 * w1
                    if bits not in VALID_BITS:
                        raise SpecError("invalid-bits", "block (%d,%d,%d) "
                                        "bits=%d" % (x, y, z, bits))
                    if bits:
                        nwords = -(-nvox * bits // 32)
                        if voff + 4 * nwords > len(buf):
                            raise SpecError("out-of-file", "encoded values "
                                            "of block (%d,%d,%d)" % (x, y, z))
                        w = words[voff // 4: voff // 4 + nwords].astype(
                            np.uint64)
                        i = np.arange(nvox, dtype=np.uint64)
                        idx = (w[(i * bits) // 32]
                               >> ((i * bits) % 32)) & np.uint64(
                                   (1 << bits) - 1)
                    else:
                        idx = np.zeros(nvox, dtype=np.uint64)
                    idx = idx.reshape(bz, by, bx)
                    nz, ny, nx = (min(bz, Z - z * bz), min(by, Y - y * by),
                                  min(bx, X - x * bx))
                    idx = idx[:nz, :ny, :nx]
                    top = int(idx.max()) if idx.size else 0
                    if toff + (top + 1) * itemsize > len(buf):
                        raise SpecError("out-of-file", "lookup entry %d of "
                                        "block (%d,%d,%d)" % (top, x, y, z))
                    table = np.frombuffer(buf, dtype=dt, count=top + 1,
                                          offset=toff)
                    out[c, z * bz:z * bz + nz, y * by:y * by + ny,
                        x * bx:x * bx + nx] = table[idx.astype(np.int64)]
    return out


def is_valid(buf, num_channels, shape_zyx, block, itemsize):
    try:
        decode(buf, num_channels, shape_zyx, block, itemsize, strict=True)
        return True
    except SpecError:
        return False


# ---------------------------------------------------------------------------
def _pack(indices, bits):
    if bits == 0:
        return b""
    nwords = -(-len(indices) * bits // 32)
    words = [0] * nwords
    for i, v in enumerate(indices):
        words[(i * bits) // 32] |= (v & ((1 << bits) - 1)) << ((i * bits)
                                                               % 32)
    return struct.pack("<%dI" % nwords, *words)


def encode_variant(chans, shape_zyx, block, itemsize, variant="plain"):
    """A spec-valid encoding of `chans` (list of flat int lists) that the
    package's encoder would not necessarily emit.

    variants: plain | wide-bits (one step wider than needed) |
    table-after-values | shared-table (one table per channel holding all
    labels, 32/16/8.. bits as needed) | padding (an unused word after every
    section) | reverse-channels (channel data stored in reverse order) |
    unsorted-table (labels in descending order)
    """
    Z, Y, X = shape_zyx
    bx, by, bz = block
    gx, gy, gz = grid(shape_zyx, block)
    nch = len(chans)
    bodies = []
    for vol in chans:
        body = bytearray(8 * gx * gy * gz)
        shared = None
        if variant == "shared-table":
            labels = sorted(set(vol))
            shared = (len(body) // 4, {v: i for i, v in enumerate(labels)},
                      len(labels))
            for v in labels:
                body += v.to_bytes(itemsize, "little")
        for z in range(gz):
            for y in range(gy):
                for x in range(gx):
                    vals = []
                    present = []
                    for dz in range(bz):
                        for dy in range(by):
                            for dx in range(bx):
                                zz, yy, xx = (z * bz + dz, y * by + dy,
                                              x * bx + dx)
                                if zz < Z and yy < Y and xx < X:
                                    v = vol[(zz * Y + yy) * X + xx]
                                    present.append(v)
                                    vals.append(v)
                                else:
                                    vals.append(None)
                    fill = present[0]
                    vals = [fill if v is None else v for v in vals]
                    if shared is not None:
                        toff, index, nlab = shared
                    else:
                        labels = sorted(set(vals),
                                        reverse=(variant == "unsorted-table"))
                        index = {v: i for i, v in enumerate(labels)}
                        nlab = len(labels)
                    bits = next(b for b in VALID_BITS if (1 << b) >= nlab)
                    if variant == "wide-bits" and bits < 32:
                        bits = VALID_BITS[VALID_BITS.index(bits) + 1]
                    packed = _pack([index[v] for v in vals], bits)
                    if shared is None:
                        table = b"".join(v.to_bytes(itemsize, "little")
                                         for v in labels)
                        if variant == "table-after-values":
                            voff = len(body) // 4
                            body += packed
                            toff = len(body) // 4
                            body += table
                        else:
                            toff = len(body) // 4
                            body += table
                            if variant == "padding":
                                body += b"\xee\xee\xee\xee"
                            voff = len(body) // 4
                            body += packed
                    else:
                        voff = len(body) // 4
                        body += packed
                    if variant == "padding":
                        body += b"\xdd\xdd\xdd\xdd"
                    struct.pack_into("<II", body,
                                     8 * (x + gx * (y + gy * z)),
                                     toff | (bits << 24), voff)
        bodies.append(bytes(body))
    out = bytearray(4 * nch)
    order = range(nch)
    if variant == "reverse-channels":
        order = reversed(range(nch))
    if variant == "padding":
        out += b"\xcc\xcc\xcc\xcc"
    for c in order:
        struct.pack_into("<I", out, 4 * c, len(out) // 4)
        out += bodies[c]
    return bytes(out)


VARIANTS = ("plain", "wide-bits", "table-after-values", "shared-table",
            "padding", "reverse-channels", "unsorted-table")
