"""Compressed Morton code and shard routing with Python ints only.

Written from the Neuroglancer texts (volume.md "compressed Morton code",
sharded.md), see DESIGN.md Appendix A.1 / A.3.  Never imports the package.
"""


def grid_shape(size, chunk_size):
    return tuple(-(-s // c) for s, c in zip(size, chunk_size))


def compressed_morton_code(pos, grid):
    """A.3: output bit j starts at 0; for i = 0,1,...: for dim in (x,y,z):
    if 2**i < grid[dim]: bit i of pos[dim] becomes output bit j; j += 1."""
    code = 0
    j = 0
    nbits = max((g - 1).bit_length() for g in grid)
    for i in range(nbits):
        for dim in range(3):
            if (1 << i) < grid[dim]:
                code |= ((pos[dim] >> i) & 1) << j
                j += 1
    return code


def total_bits(grid):
    return sum((g - 1).bit_length() for g in grid)


def route(chunk_id, preshift_bits, minishard_bits, shard_bits):
    """A.1 with the identity hash on a 64-bit identifier."""
    h = (chunk_id & ((1 << 64) - 1)) >> preshift_bits
    minishard = h & ((1 << minishard_bits) - 1)
    shard = (h >> minishard_bits) & ((1 << shard_bits) - 1)
    return shard, minishard


def shard_file_stem(shard, shard_bits):
    """lowercase hex, zero padded to ceil(shard_bits / 4) digits"""
    return format(shard, "x").rjust(-(-shard_bits // 4), "0")
