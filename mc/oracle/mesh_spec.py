"""Legacy precomputed mesh fragment layout (DESIGN.md Appendix A.4) and the
VTK subset grammar read by Neuroglancer (A.5). struct / str only; never
imports the package under test."""
import struct


def pack(vertices, triangles):
    """uint32le V; V x 3 float32le; then uint32le index triples"""
    out = [struct.pack("<I", len(vertices))]
    for v in vertices:
        out.append(struct.pack("<3f", *[float(c) for c in v]))
    for t in triangles:
        out.append(struct.pack("<3I", *[int(i) for i in t]))
    return b"".join(out)


def classify(buf):
    """-> ("valid", V, M) or ("invalid", reason) by the format text"""
    if len(buf) < 4:
        return ("invalid", "shorter than the vertex count field")
    v = struct.unpack_from("<I", buf, 0)[0]
    if len(buf) < 4 + 12 * v:
        return ("invalid", "truncated vertex table")
    rest = len(buf) - 4 - 12 * v
    if rest % 12:
        return ("invalid", "triangle table is not a multiple of 12 bytes")
    m = rest // 12
    idx = struct.unpack_from("<%dI" % (3 * m), buf, 4 + 12 * v)
    if any(i >= v for i in idx):
        return ("invalid", "triangle references a nonexistent vertex")
    return ("valid", v, m)


class VtkError(Exception):
    pass


def parse_vtk(text):
    """Parse the subset of legacy ASCII VTK that Neuroglancer reads.
    -> (points [[x,y,z]], polygons [[a,b,c]], attributes {name: (k, rows)})"""
    lines = text.split("\n")
    if lines and lines[-1] == "":
        lines.pop()
    pos = [0]

    def nxt(what):
        if pos[0] >= len(lines):
            raise VtkError("unexpected end of file, expected " + what)
        ln = lines[pos[0]]
        pos[0] += 1
        return ln

    ln = nxt("header")
    if not ln.startswith("# vtk DataFile Version "):
        raise VtkError("bad header line %r" % ln)
    title = nxt("title")
    if len(title) > 255:
        raise VtkError("title longer than 255 characters")
    if nxt("ASCII") != "ASCII":
        raise VtkError("expected ASCII")
    if nxt("DATASET") != "DATASET POLYDATA":
        raise VtkError("expected DATASET POLYDATA")
    parts = nxt("POINTS").split()
    if len(parts) != 3 or parts[0] != "POINTS" or parts[2] != "float":
        raise VtkError("bad POINTS line %r" % parts)
    n = int(parts[1])
    points = []
    for _ in range(n):
        nums = nxt("point").split()
        if len(nums) != 3:
            raise VtkError("point line with %d numbers" % len(nums))
        points.append([float(x) for x in nums])
    parts = nxt("POLYGONS").split()
    if len(parts) != 3 or parts[0] != "POLYGONS":
        raise VtkError("bad POLYGONS line %r" % parts)
    m = int(parts[1])
    if int(parts[2]) != 4 * m:
        raise VtkError("POLYGONS size %s != 4*%d" % (parts[2], m))
    polys = []
    for _ in range(m):
        nums = nxt("polygon").split()
        if len(nums) != 4 or nums[0] != "3":
            raise VtkError("polygon line %r" % nums)
        tri = [int(x) for x in nums[1:]]
        if any(i < 0 or i >= n for i in tri):
            raise VtkError("polygon index out of range")
        polys.append(tri)
    attrs = {}
    if pos[0] < len(lines):
        parts = nxt("POINT_DATA").split()
        if len(parts) != 2 or parts[0] != "POINT_DATA" or int(parts[1]) != n:
            raise VtkError("bad POINT_DATA line %r" % parts)
        while pos[0] < len(lines):
            parts = nxt("SCALARS").split()
            if len(parts) not in (3, 4) or parts[0] != "SCALARS" \
                    or parts[2] != "float":
                raise VtkError("bad SCALARS line %r" % parts)
            k = int(parts[3]) if len(parts) == 4 else 1
            if not 1 <= k <= 4:
                raise VtkError("SCALARS with %d components" % k)
            if nxt("LOOKUP_TABLE") != "LOOKUP_TABLE default":
                raise VtkError("expected LOOKUP_TABLE default")
            rows = []
            for _ in range(n):
                nums = nxt("attribute row").split()
                if len(nums) != k:
                    raise VtkError("attribute row with %d numbers, expected "
                                   "%d" % (len(nums), k))
                rows.append([float(x) for x in nums])
            if parts[1] in attrs:
                raise VtkError("duplicate attribute " + parts[1])
            attrs[parts[1]] = (k, rows)
    return points, polys, attrs
