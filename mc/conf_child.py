"""Child process of the conformance replays: performs ONE operation of a
C18 scenario, or a list of CLI commands, with the stock open()/os (no
seam), and prints one JSON line with the outcome. Run under strace by
mc/conformance.py."""
import json
import os
import sys


def main():
    spec = json.loads(sys.argv[1])
    sys.path.insert(0, spec["verif"])
    import logging
    logging.disable(logging.CRITICAL)
    os.environ["TQDM_DISABLE"] = "1"
    import mc.runner as runner
    runner._SCRATCH = spec["scratch"]
    if spec["kind"] == "c18-op":
        from mc.props import C18
        model = {k: [None] for k in ()}
        # the operation appends in-flight versions to the model; the parent
        # has its own copy, a throw-away dict is enough here
        import collections
        m = collections.defaultdict(lambda: [None])
        try:
            res = C18.operation(spec["dir"], spec["scn"], m)
            out = {"outcome": "ok",
                   "result": res.hex() if isinstance(res, bytes)
                   else (res if isinstance(res, bool) or res is None
                         else repr(res))}
        except BaseException as exc:
            out = {"outcome": "exc", "type": type(exc).__name__,
                   "mro": [c.__name__ for c in type(exc).__mro__]}
        sys.stdout.write("\nCONF-RESULT " + json.dumps(out) + "\n")
        sys.stdout.flush()
        os._exit(0)


if __name__ == "__main__":
    main()
